package main

// simworker: executes simulated runs of one property driver. It is started by
// the supervisor (/verif/sup), which rebuilt it from /repo's working tree.
//
//   simworker -prop C05 -tier quick -seed S -from A -to B   seeded runs, one JSON line per run
//   simworker -replay FILE                                  re-execute a recorded choice trace
//   simworker -prop C05 -seed S -run I -stream FILE         one seeded run, streaming its trace to FILE
//
// stdout protocol (one JSON object per line): {"start":i} before each run, then
// the run's result. A process that dies (Go fatal error, race detector halt)
// leaves the supervisor with the index of the dying run.

import (
	"bufio"
	"encoding/json"
	"flag"
	"fmt"
	"os"
	"strconv"
	"time"
)

type RunResult struct {
	Run        int                    `json:"run"`
	OK         bool                   `json:"ok"`
	Viol       *Violation             `json:"viol,omitempty"`
	Trace      []int                  `json:"trace,omitempty"`
	Labels     []string               `json:"labels,omitempty"`
	Events     []string               `json:"events,omitempty"`
	Stats      map[string]int         `json:"stats,omitempty"`
	Digest     string                 `json:"digest"`
	States     []string               `json:"states,omitempty"`
	Scheds     []string               `json:"scheds,omitempty"`
	NonTrivial bool                   `json:"nontrivial"`
	Sample     map[string]interface{} `json:"sample,omitempty"`
	Choices    int                    `json:"choices"`
	Millis     int64                  `json:"ms"`
}

type ReplayFile struct {
	Property string `json:"property"`
	Tier     string `json:"tier"`
	Seed     uint64 `json:"seed"`
	Run      int    `json:"run"`
	Variant  string `json:"variant"` // e.g. "verif", "verif,vectors", "+race"
	// From, when set, makes this a SEQUENCE replay: the seeded runs From..Run are
	// executed one after the other in one process and the result of the last one
	// is reported. Used when a violation depends on process-wide state left behind
	// by earlier runs (e.g. a corrupted package-level sentinel), so that the trace
	// of the failing run alone does not reproduce it.
	From      *int       `json:"from,omitempty"`
	Trace     []int      `json:"trace"`
	Violation *Violation `json:"violation"`
	Events    []string   `json:"events,omitempty"`
	Labels    []string   `json:"labels,omitempty"`
	Note      string     `json:"note,omitempty"`
}

func result(r *RunCtx, withTrace bool, withEvents bool, ms int64) *RunResult {
	res := &RunResult{Run: r.Idx, OK: r.viol == nil, Viol: r.viol, Stats: r.Stats,
		Digest: strconv.FormatUint(r.dig.h, 16), NonTrivial: r.NonTrivial, Choices: len(r.ch.trace), Millis: ms, Scheds: r.Scheds}
	n := 0
	for s := range r.States {
		if n >= 64 {
			break
		}
		res.States = append(res.States, strconv.FormatUint(s, 16))
		n++
	}
	if withTrace || r.viol != nil {
		res.Trace = r.ch.trace
	}
	if withEvents {
		res.Events = r.Events
		res.Labels = r.ch.labels
	}
	return res
}

func main() {
	prop := flag.String("prop", "", "property id")
	tier := flag.String("tier", "quick", "quick|thorough")
	seed := flag.Uint64("seed", 1, "base seed")
	from := flag.Int("from", 0, "first run index")
	to := flag.Int("to", 1, "one past the last run index")
	one := flag.Int("run", -1, "single run index")
	stream := flag.String("stream", "", "stream the choice trace of the single run to this file")
	replay := flag.String("replay", "", "replay file")
	tsan := flag.Bool("tsan", false, "use the invisible (raw syscall) baton; for -race builds")
	samples := flag.Int("samples", 1, "number of runs whose sample is reported")
	deadline := flag.Int64("deadline", 0, "unix time after which no new run is started")
	verbose := flag.Bool("v", false, "verbose")
	flag.StringVar(&straceChildTarget, "straceChild", "", "strace child mode: path of the operation that gets the injected syscall failure")
	flag.IntVar(&straceChildIdx, "straceIdx", 0, "strace child mode: ordinal of the operation")
	flag.Parse()

	setupRuntime(*tsan)
	out := bufio.NewWriterSize(os.Stdout, 1<<16)
	emit := func(v interface{}) {
		b, err := json.Marshal(v)
		if err != nil {
			fmt.Fprintln(os.Stderr, "marshal:", err)
			os.Exit(2)
		}
		out.Write(b)
		out.WriteByte('\n')
		out.Flush()
	}

	if *replay != "" {
		b, err := os.ReadFile(*replay)
		if err != nil {
			fmt.Fprintln(os.Stderr, err)
			os.Exit(2)
		}
		var rf ReplayFile
		if err := json.Unmarshal(b, &rf); err != nil {
			fmt.Fprintln(os.Stderr, err)
			os.Exit(2)
		}
		if rf.From != nil {
			var r *RunCtx
			t0 := time.Now()
			for i := *rf.From; i <= rf.Run; i++ {
				rs := mixSeed(rf.Seed, rf.Property, i)
				ch := newChooser(rs)
				ch.keep = i == rf.Run
				emit(map[string]int{"start": i})
				r = executeRun(rf.Property, rf.Tier, i, rs, ch, *tsan, *verbose)
				if i < rf.Run {
					emit(result(r, false, false, 0))
				}
			}
			emit(result(r, true, true, time.Since(t0).Milliseconds()))
			return
		}
		ch := newReplayChooser(rf.Trace)
		ch.keep = true
		t0 := time.Now()
		emit(map[string]int{"start": rf.Run})
		r := executeRun(rf.Property, rf.Tier, rf.Run, mixSeed(rf.Seed, rf.Property, rf.Run), ch, *tsan, *verbose)
		emit(result(r, true, true, time.Since(t0).Milliseconds()))
		return
	}

	if *one >= 0 {
		*from, *to = *one, *one+1
	}
	for i := *from; i < *to; i++ {
		if *deadline > 0 && time.Now().Unix() > *deadline {
			break
		}
		rs := mixSeed(*seed, *prop, i)
		ch := newChooser(rs)
		if *stream != "" {
			f, err := os.Create(*stream)
			if err != nil {
				fmt.Fprintln(os.Stderr, err)
				os.Exit(2)
			}
			ch.stream = func(v int) { fmt.Fprintf(f, "%d\n", v) }
		}
		emit(map[string]int{"start": i})
		t0 := time.Now()
		r := executeRun(*prop, *tier, i, rs, ch, *tsan, *verbose)
		res := result(r, false, *verbose, time.Since(t0).Milliseconds())
		if i-*from < *samples {
			res.Sample = r.Sample
		}
		emit(res)
	}
}
