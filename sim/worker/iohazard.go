package main

// iohazard driver: storage faults (C17), cancellation (C18) and vector-engine
// failures (C19) on persist / stream / merge operations. Faults are injected in
// the real kernel (RLIMIT_FSIZE, /dev/full, /dev/null, directory, missing
// parent), in the io.Writer argument, in the close channel and in the stub
// engine. For each input a fault-free run gives the reference; then a set of
// fault positions (small inputs: all of them) is tried, each followed by a
// fault-free retry.

import (
	"bytes"
	"encoding/json"
	"errors"
	"fmt"
	"os"
	"os/exec"
	"os/signal"
	"path/filepath"
	"sort"
	"strings"
	"syscall"
	"time"

	"github.com/RoaringBitmap/roaring/v2"
	segment "github.com/blevesearch/scorch_segment_api/v2"
	zap "github.com/blevesearch/zapx/v16"
)

func init() {
	signal.Ignore(syscall.SIGXFSZ)
	drivers["C17"] = writeFaults
	drivers["C18"] = cancelledMerges
	drivers["C19"] = engineFaults
}

// ---------------------------------------------------------------------------
// fault primitives

var errInjected = errors.New("verif: injected write failure")

// faultyWriter fails at byte offset N. mode 0: accept the bytes up to N and
// return an error (short write with error); mode 1: refuse the whole call that
// crosses N. (A writer that returns n < len(p) with a nil error breaks the
// io.Writer contract - bufio.Writer spins forever on it - and is therefore not
// a fault this simulator injects.)
type faultyWriter struct {
	buf   bytes.Buffer
	n     int
	mode  int
	fired bool
}

func (w *faultyWriter) Write(p []byte) (int, error) {
	if w.fired {
		return 0, errInjected
	}
	if w.buf.Len()+len(p) <= w.n {
		return w.buf.Write(p)
	}
	w.fired = true
	switch w.mode {
	case 1:
		return 0, errInjected
	}
	k := w.n - w.buf.Len()
	w.buf.Write(p[:k])
	return k, errInjected
}

// withFileSizeLimit runs f with RLIMIT_FSIZE = n (SIGXFSZ is ignored, so a
// write crossing the limit is torn at byte n and then fails with EFBIG).
func withFileSizeLimit(n uint64, f func()) {
	var old syscall.Rlimit
	if err := syscall.Getrlimit(syscall.RLIMIT_FSIZE, &old); err != nil {
		panic(err)
	}
	lim := syscall.Rlimit{Cur: n, Max: old.Max}
	if err := syscall.Setrlimit(syscall.RLIMIT_FSIZE, &lim); err != nil {
		panic(err)
	}
	unlimited = old
	defer func() {
		if err := syscall.Setrlimit(syscall.RLIMIT_FSIZE, &old); err != nil {
			panic(err)
		}
	}()
	f()
}

var unlimited syscall.Rlimit

// liftFileSizeLimit ends the fault while the operation is still running (a
// transient failure: the disk was full for a moment).
func liftFileSizeLimit() {
	if err := syscall.Setrlimit(syscall.RLIMIT_FSIZE, &unlimited); err != nil {
		panic(err)
	}
}

// countFDs counts the open descriptors that point into dir (including deleted
// files) or at the fault devices; descriptors of the runtime itself (epoll,
// pipes) are not the operation's business.
func countFDs(dir string) int {
	ents, _ := os.ReadDir("/proc/self/fd")
	n := 0
	for _, e := range ents {
		l, err := os.Readlink(filepath.Join("/proc/self/fd", e.Name()))
		if err != nil {
			continue
		}
		if strings.HasPrefix(l, dir) || l == "/dev/full" || l == "/dev/null" {
			n++
		}
	}
	return n
}

type pathFault struct {
	kind string // rlimit | rlimit-transient | devfull | devnull | dir | noparent
	n    uint64
	lift uint64 // rlimit-transient: the limit is lifted once n+lift bytes were reported as written
}

func (f pathFault) String() string {
	if f.kind == "rlimit" {
		return fmt.Sprintf("RLIMIT_FSIZE=%d", f.n)
	}
	if f.kind == "rlimit-transient" {
		return fmt.Sprintf("RLIMIT_FSIZE=%d lifted after %d bytes were handed over", f.n, f.n+f.lift)
	}
	return f.kind
}

// preparePath sets the path up for the fault and returns the path to pass to zapx.
func preparePath(r *RunCtx, f pathFault) string {
	p := r.path("fault")
	switch f.kind {
	case "devfull":
		if err := os.Symlink("/dev/full", p); err != nil {
			panic(err)
		}
	case "devnull":
		if err := os.Symlink("/dev/null", p); err != nil {
			panic(err)
		}
	case "dir":
		if err := os.Mkdir(p, 0o755); err != nil {
			panic(err)
		}
	case "noparent":
		p = filepath.Join(p+".missing", "x.zap")
	}
	return p
}

// offsets to try for an output of length L written through a buffer of size
// bufSize: the boundaries the property names, plus seeded ones; all of them
// when the output is small enough. The seeded ones are drawn as fractions of L
// and their number does not depend on L, so that a recorded choice trace stays
// aligned when L differs by a few bytes between two executions (zapx lays its
// sections out in Go map iteration order).
func faultOffsets(c *Chooser, L int, bufSize int, max int, all bool) []int {
	fr := make([]int, max)
	for i := range fr {
		fr[i] = c.Choose(1<<16, "fault.offset")
	}
	set := map[int]bool{}
	add := func(n int) {
		if n >= 0 && n < L {
			set[n] = true
		}
	}
	if all {
		for n := 0; n < L; n++ {
			set[n] = true
		}
	} else {
		add(0)
		add(1)
		add(L - 1)
		add(L - 4)  // first byte of the CRC
		add(L - 5)  // last byte before the CRC
		add(L - 30) // middle of the footer
		add(L - footerLen)
		add(L - footerLen - 1)
		if bufSize > 0 && bufSize < L {
			// flush boundaries: the first ones and seeded later ones
			nb := L / bufSize
			for k := 1; k <= nb && k <= 3; k++ {
				add(k*bufSize - 1)
				add(k * bufSize)
				add(k*bufSize + 1)
			}
			for i := 0; i < max/2; i++ {
				k := 1 + fr[i]*nb>>16
				add(k*bufSize - 1 + i%3)
			}
		}
		for i := max / 2; i < max; i++ {
			add(fr[i] * L >> 16)
		}
	}
	out := make([]int, 0, len(set))
	for n := range set {
		out = append(out, n)
	}
	sort.Ints(out)
	return out
}

// ---------------------------------------------------------------------------
// scenarios

type mergeScenario struct {
	ins   []*SegH
	segs  []segment.Segment
	drops []*roaring.Bitmap
	desc  string
}

func (w *World) genMergeScenario() *mergeScenario {
	c := w.r.ch
	n := 1 + c.Skewed(3, "sc.nin")
	if n > len(w.Segs) {
		n = len(w.Segs)
	}
	sc := &mergeScenario{}
	start := c.Choose(len(w.Segs), "sc.start")
	for k := 0; k < n; k++ {
		h := w.Segs[(start+k)%len(w.Segs)]
		if len(w.Cfg.VecFields) > 0 && sharesRoot(sc.ins, h) {
			continue
		}
		sc.ins = append(sc.ins, h)
		sc.segs = append(sc.segs, h.Seg)
		d, _ := genDrops(c, h.Canon.Count)
		sc.drops = append(sc.drops, d)
		sc.desc += fmt.Sprintf("%s(%s,n=%d,drop=%s) ", h.Name, h.Kind, h.Canon.Count, dropsString(d))
	}
	return sc
}

type mergeRef struct {
	maps  [][]uint64
	size  uint64
	canon *Canon
	K     int // number of write callbacks
	eng   []string
}

// referenceMerge runs the scenario without faults.
func (w *World) referenceMerge(sc *mergeScenario) *mergeRef {
	r := w.r
	p := r.path("refmerge")
	sr := &statsReporter{}
	resetEngineHooks()
	maps, size, err := plugin.Merge(sc.segs, sc.drops, p, nil, sr)
	if err != nil {
		r.fail("merge-error", "Merge", "fault-free merge failed (%s): %v", sc.desc, err)
	}
	ref := &mergeRef{maps: maps, size: size, K: sr.n, eng: engineOpSequence()}
	out, err := plugin.Open(p)
	if err != nil {
		r.fail("open-error", "Open(merged)", "%v", err)
	}
	ref.canon = w.extract(out, "fault-free merge output")
	out.Close()
	os.Remove(p)
	return ref
}

// checkCompleteMerge verifies a merge that reported success.
func (w *World) checkCompleteMerge(oracle, what string, p string, maps [][]uint64, size uint64, ref *mergeRef) {
	r := w.r
	data, err := os.ReadFile(p)
	if err != nil {
		r.fail(oracle+".success-incomplete", "Merge", "%s: Merge reported success but the file cannot be read: %v", what, err)
	}
	if uint64(len(data)) != size {
		r.fail(oracle+".success-incomplete", "Merge", "%s: Merge reported success and size %d, file has %d bytes", what, size, len(data))
	}
	f, crc, err := parseFooter(data)
	if err != nil || f.CRC != crc || f.Version != 16 || f.NumDocs != ref.canon.Count {
		r.fail(oracle+".success-incomplete", "Merge", "%s: Merge reported success but the file has no valid footer (err=%v footer=%+v computed crc=%08x, expected %d docs)", what, err, f, crc, ref.canon.Count)
	}
	if fmt.Sprint(maps) != fmt.Sprint(ref.maps) {
		r.fail(oracle+".success-incomplete", "Merge", "%s: returned maps %v differ from the fault-free run %v", what, maps, ref.maps)
	}
	out, err := plugin.Open(p)
	if err != nil {
		r.fail(oracle+".success-incomplete", "Open", "%s: Merge reported success but the file does not open: %v", what, err)
	}
	cn := w.extract(out, what)
	out.Close()
	if s := Same(ref.canon, cn, cmpAll); s != "" {
		r.fail(oracle+".success-incomplete", "Merge", "%s: Merge reported success but the content differs from the fault-free run: %s", what, s)
	}
}

func (w *World) smallWorld(wantSyn, wantVec bool) {
	r, c := w.r, w.r.ch
	nb := 1 + c.Choose(3, "io.nbuilds")
	for i := 0; i < nb; i++ {
		n := []int{0, 1, 1, 2, 3, 5, 8, 13}[c.Choose(8, "io.batch")]
		if c.Prob(1, 40, "io.large") {
			n = 200 + c.Choose(400, "io.largeN")
		}
		spec := genBatch(c, w.Cfg, n, w.Cfg.IDSpace)
		h := w.Build(spec, nil)
		h.Canon = w.extract(h.Seg, "built segment "+h.Name)
		if c.Bool("io.persist") {
			h2 := w.PersistOpen(h)
			h.Seg.Close()
			h = h2
		}
		w.Add(h)
		r.ev("segment %s %s: %s", h.Name, h.Kind, spec.summary())
	}
	if c.Prob(1, 3, "io.premerge") {
		sc := w.genMergeScenario()
		h := w.mergeOnce(sc.ins, sc.drops, MergeParts{})
		w.Add(h)
	}
	r.NonTrivial = false
}

// ---------------------------------------------------------------------------
// C17

func writeFaults(r *RunCtx) {
	c := r.ch
	w := newWorld(r, c.Choose(3, "cfg.syn") == 0, vectorsBuild)
	defer w.CloseAll()
	zap.DefaultFileMergerBufferSize = []int{16, 64, 256, 4096, 0, 1, 3, 7}[c.Choose(8, "io.mergebuf")] // 0: the default size of the buffered writer
	w.smallWorld(len(w.Cfg.SynFields) > 0, vectorsBuild)
	thorough := r.Tier == "thorough"
	maxOff := 10
	if thorough {
		maxOff = 48
	}
	fd0 := countFDs(r.tmp)
	// syscall-level faults (EIO from write / fsync / close through strace): every
	// run of the thorough tier, one run in twelve of the quick tier
	doStrace := thorough || c.Prob(1, 12, "io.strace")
	sidx := 0
	switch c.Choose(3, "io.op") {
	case 0: // WriteTo
		h := w.pickBuilt()
		sb := h.Seg.(*zap.SegmentBase)
		var ref bytes.Buffer
		if _, err := sb.WriteTo(&ref); err != nil {
			r.fail("write-error", "WriteTo", "fault-free WriteTo failed: %v", err)
		}
		L := ref.Len()
		offs := faultOffsets(c, L, 4096, maxOff, thorough && L <= 400)
		for _, n := range offs {
			for mode := 0; mode < 2; mode++ {
				fw := &faultyWriter{n: n, mode: mode}
				nw, err := sb.WriteTo(fw)
				what := fmt.Sprintf("WriteTo(%s) with a writer failing at byte %d of %d (mode %d)", h.Name, n, L, mode)
				if fw.fired {
					r.count(fmt.Sprintf("fault.writer.mode%d", mode))
					r.NonTrivial = true
				}
				if err == nil {
					r.fail("C17.success-incomplete", "WriteTo", "%s returned no error (n=%d) although only %d of %d bytes were accepted", what, nw, fw.buf.Len(), L)
				}
				r.evv(fmt.Sprintf("writeto mode%d err", mode), "%s -> err", what)
			}
		}
		// no-fault run still complete
		var again bytes.Buffer
		nw, err := sb.WriteTo(&again)
		if err != nil || !bytes.Equal(again.Bytes(), ref.Bytes()) {
			r.fail("C17.retry", "WriteTo", "WriteTo after the failed attempts: err=%v, %d bytes vs %d", err, again.Len(), L)
		}
		if nw != int64(again.Len()) {
			r.fail("C17.retry", "WriteTo", "WriteTo after the failed attempts returned %d, wrote %d bytes", nw, again.Len())
		}
		r.count("op.writeto")
	case 1: // Persist
		h := w.pickBuilt()
		sb := h.Seg.(*zap.SegmentBase)
		var ref bytes.Buffer
		if _, err := sb.WriteTo(&ref); err != nil {
			r.fail("write-error", "WriteTo", "fault-free WriteTo failed: %v", err)
		}
		L := ref.Len()
		var faults []pathFault
		for _, n := range faultOffsets(c, L, 4096, maxOff, thorough && L <= 400) {
			faults = append(faults, pathFault{kind: "rlimit", n: uint64(n)})
		}
		faults = append(faults, pathFault{kind: "rlimit", n: uint64(L)}, pathFault{kind: "devfull"}, pathFault{kind: "devnull"}, pathFault{kind: "dir"}, pathFault{kind: "noparent"})
		for _, f := range faults {
			p := preparePath(r, f)
			if f.kind == "rlimit" {
				prefill(r, p, L, ref.Bytes())
			}
			var err error
			run := func() { err = sb.Persist(p) }
			if f.kind == "rlimit" {
				withFileSizeLimit(f.n, run)
			} else {
				run()
			}
			what := fmt.Sprintf("Persist(%s, %d bytes) under %s", h.Name, L, f)
			w.judgePathOp("Persist", what, f, p, err, uint64(L), func() {
				data, rerr := os.ReadFile(p)
				if rerr != nil || !bytes.Equal(data, ref.Bytes()) {
					r.fail("C17.success-incomplete", "Persist", "%s reported success but the file differs from the complete output (read err=%v, %d vs %d bytes)", what, rerr, len(data), L)
				}
				w.checkFooter("C17", data, h.Canon.Count, h.Mode)
			})
			os.RemoveAll(p)
		}
		if doStrace {
			for _, sf := range straceFaults {
				sf := sf
				pre := drawPrefill(r, L, nil)
				r.straceChildOp(func(path string) straceOutcome {
					err := sb.Persist(path)
					o := straceOutcome{}
					if err != nil {
						o.Err = err.Error()
					}
					return o
				})
				if r.straceTarget != "" {
					continue
				}
				target := r.path("strace")
				writePrefill(r, target, L, pre)
				out, ok := r.runStraceChild(sf, target, sidx)
				sidx++
				what := fmt.Sprintf("Persist(%s, %d bytes) under %s", h.Name, L, sf)
				if !ok {
					r.count("fault.strace.unavailable")
					continue
				}
				r.count("fault.strace." + sf.sys)
				if out.Err == "" && (sf.sys != "write" || sf.when == 1) {
					// the first write, the fsync and the close of the output always
					// happen: their failure must surface as an error
					r.fail("C17.success-incomplete", "Persist", "%s reported success although the %s of its output failed", what, sf.sys)
				}
				if out.Err != "" {
					r.NonTrivial = true
					if fileExists(target) {
						r.fail("C17.file-left-behind", "Persist", "%s returned %q but left a file behind", what, out.Err)
					}
				} else {
					// the child built its own copy of the segment, whose bytes differ from
					// the parent's in the map-ordered parts: judge by length, footer, CRC and
					// content
					data, rerr := os.ReadFile(target)
					if rerr != nil {
						r.fail("C17.success-incomplete", "Persist", "%s reported success but the file cannot be read: %v", what, rerr)
					}
					w.checkFooter("C17", data, h.Canon.Count, h.Mode)
					seg, oerr := plugin.Open(target)
					if oerr != nil {
						r.fail("C17.success-incomplete", "Persist", "%s reported success but the file does not open: %v", what, oerr)
					}
					cn := w.extract(seg, what)
					seg.Close()
					if d := Same(h.Canon, cn, cmpAll); d != "" {
						r.fail("C17.success-incomplete", "Persist", "%s reported success but the content differs: %s", what, d)
					}
				}
				os.Remove(target)
				r.evv("persist "+sf.sys, "%s -> err=%v", what, out.Err != "")
			}
		}
		p := r.path("retry")
		prefill(r, p, L, ref.Bytes())
		if err := sb.Persist(p); err != nil {
			r.fail("C17.retry", "Persist", "fault-free Persist after the failed attempts failed: %v", err)
		}
		data, _ := os.ReadFile(p)
		if !bytes.Equal(data, ref.Bytes()) {
			r.fail("C17.retry", "Persist", "fault-free Persist after the failed attempts wrote different bytes")
		}
		r.count("op.persist")
	default: // Merge
		sc := w.genMergeScenario()
		ref := w.referenceMerge(sc)
		L := int(ref.size)
		var faults []pathFault
		for _, n := range faultOffsets(c, L, zap.DefaultFileMergerBufferSize, maxOff, thorough && L <= 400) {
			faults = append(faults, pathFault{kind: "rlimit", n: uint64(n)})
		}
		faults = append(faults, pathFault{kind: "rlimit", n: uint64(L + 8)}, pathFault{kind: "devfull"}, pathFault{kind: "devnull"}, pathFault{kind: "dir"}, pathFault{kind: "noparent"})
		// transient failures: the destination refuses bytes for a while and accepts
		// them again before the merge ends
		mb := zap.DefaultFileMergerBufferSize
		if mb <= 0 {
			mb = 4096
		}
		for k := 0; k < 3 && L > 0; k++ {
			n := uint64(c.Choose(L, "io.transient.at"))
			lift := []uint64{0, 1, uint64(mb), uint64(2 * mb)}[c.Choose(4, "io.transient.lift")]
			faults = append(faults, pathFault{kind: "rlimit-transient", n: n, lift: lift})
		}
		engineQuiesce()
		live0 := engineLive()
		for _, f := range faults {
			p := preparePath(r, f)
			if f.kind == "rlimit" || f.kind == "rlimit-transient" {
				prefill(r, p, L, nil)
			}
			var err error
			var maps [][]uint64
			var size uint64
			sr := &statsReporter{}
			run := func() { maps, size, err = plugin.Merge(sc.segs, sc.drops, p, nil, sr) }
			switch f.kind {
			case "rlimit":
				withFileSizeLimit(f.n, run)
			case "rlimit-transient":
				lifted := false
				f := f
				sr.cbBytes = func(total uint64) {
					if !lifted && total >= f.n+f.lift {
						lifted = true
						liftFileSizeLimit()
					}
				}
				withFileSizeLimit(f.n, run)
			default:
				run()
			}
			what := fmt.Sprintf("Merge(%s-> %d bytes, buffer %d) under %s", sc.desc, L, zap.DefaultFileMergerBufferSize, f)
			// the merged size can vary by a few bytes between runs when two sections
			// write data (map iteration order), so "the limit was below the output
			// size" is only certain well below L
			w.judgePathOp("Merge", what, f, p, err, uint64(L), func() {
				w.checkCompleteMerge("C17", what, p, maps, size, ref)
			})
			os.RemoveAll(p)
			engineQuiesce()
			if l := engineLive(); l > live0 {
				r.fail("C17.engine-leak", "Merge", "%s: %d vector indexes are still alive after the call (before: %d)", what, l, live0)
			}
		}
		if doStrace {
			for _, sf := range straceFaults {
				sf := sf
				pre := drawPrefill(r, L, nil)
				r.straceChildOp(func(path string) straceOutcome {
					maps, size, err := plugin.Merge(sc.segs, sc.drops, path, nil, &statsReporter{})
					o := straceOutcome{Maps: maps, Size: size}
					if err != nil {
						o.Err = err.Error()
					}
					return o
				})
				if r.straceTarget != "" {
					continue
				}
				target := r.path("strace")
				writePrefill(r, target, L, pre)
				out, ok := r.runStraceChild(sf, target, sidx)
				sidx++
				what := fmt.Sprintf("Merge(%s) under %s", sc.desc, sf)
				if !ok {
					r.count("fault.strace.unavailable")
					continue
				}
				r.count("fault.strace." + sf.sys)
				if out.Err == "" && (sf.sys != "write" || sf.when == 1) {
					r.fail("C17.success-incomplete", "Merge", "%s reported success although the %s of its output failed", what, sf.sys)
				}
				if out.Err != "" {
					r.NonTrivial = true
					if fileExists(target) {
						r.fail("C17.file-left-behind", "Merge", "%s returned %q but left a file behind", what, out.Err)
					}
				} else {
					w.checkCompleteMerge("C17", what, target, out.Maps, out.Size, ref)
				}
				os.Remove(target)
				r.evv("merge "+sf.sys, "%s -> err=%v", what, out.Err != "")
			}
		}
		p := r.path("retry")
		prefill(r, p, L, nil)
		maps, size, err := plugin.Merge(sc.segs, sc.drops, p, nil, nil)
		if err != nil {
			r.fail("C17.retry", "Merge", "fault-free Merge after the failed attempts failed: %v", err)
		}
		w.checkCompleteMerge("C17.retry", "fault-free retry", p, maps, size, ref)
		r.count("op.merge")
	}
	if fd := countFDs(r.tmp); fd > fd0 {
		r.fail("C17.fd-leak", "cleanup", "%d file descriptors are open after the faulted operations, %d before", fd, fd0)
	}
	r.Sample["ops"] = r.Events
}

func (w *World) pickBuilt() *SegH {
	var built []*SegH
	for _, h := range w.Segs {
		if _, ok := h.Seg.(*zap.SegmentBase); ok && h.Kind == "mem" {
			built = append(built, h)
		}
	}
	if len(built) == 0 {
		spec := genBatch(w.r.ch, w.Cfg, 1+w.r.ch.Choose(5, "io.extra"), w.Cfg.IDSpace)
		h := w.Build(spec, nil)
		h.Canon = w.extract(h.Seg, "built segment "+h.Name)
		w.Add(h)
		return h
	}
	return built[w.r.ch.Choose(len(built), "io.pickbuilt")]
}

// prefill gives the path a history: with probability 1/3 a regular file is
// already there when the operation starts - empty, shorter or longer than the
// output of length L, junk or (when ref is given) the bytes of an earlier
// complete output followed by more. The property does not depend on what was
// at the path before: a failure leaves no file, a success leaves exactly the
// complete output.
func prefill(r *RunCtx, p string, L int, ref []byte) {
	writePrefill(r, p, L, drawPrefill(r, L, ref))
}

// drawPrefill only draws (nil: nothing at the path); the strace child draws the
// same choices as its parent but does not write.
func drawPrefill(r *RunCtx, L int, ref []byte) []byte {
	c := r.ch
	if !c.Prob(1, 3, "io.prefill") {
		return nil
	}
	var n int
	switch c.Choose(4, "io.prefill.kind") {
	case 0:
		n = 0
	case 1:
		n = L / 2
	case 2:
		n = L + 1 + L/3
	default:
		n = 3*L + 4096
	}
	b := make([]byte, n)
	for i := range b {
		b[i] = byte(i*131 + 7)
	}
	if ref != nil && c.Bool("io.prefill.image") {
		copy(b, ref)
	}
	return b
}

func writePrefill(r *RunCtx, p string, L int, b []byte) {
	if b == nil {
		return
	}
	if err := os.WriteFile(p, b, 0o600); err != nil {
		panic(err)
	}
	if len(b) > L {
		r.count("probe.io.over-longer-file")
	} else {
		r.count("probe.io.over-shorter-file")
	}
}

// judgePathOp applies the C17 oracle to one path-based operation.
func (w *World) judgePathOp(op, what string, f pathFault, p string, err error, L uint64, checkComplete func()) {
	r := w.r
	// A merged file's size varies from run to run when two sections write data
	// (zapx lays sections out in Go map iteration order, which moves offsets and
	// with them varint lengths - tens of bytes on larger outputs). "The limit was
	// below the output size, so the call must fail" is therefore only certain
	// well below the reference size; closer to it a success is judged by the
	// completeness check alone (length, footer, CRC, content), which a truncated
	// file cannot pass.
	slack := uint64(0)
	if op == "Merge" {
		slack = 64 + L/20
	}
	mustFail := f.kind != "rlimit" || f.n+slack < L
	if f.kind == "rlimit-transient" {
		// whether a write met the limit depends on when the buffer was flushed:
		// both outcomes are legal, each is judged on its own terms
		mustFail = false
	}
	if (f.kind == "devfull" || f.kind == "devnull") && err == nil {
		// the fault lives behind a symbolic link at the path. An implementation
		// that replaces whatever is at the path instead of writing through it never
		// meets the device: then no write failed, and the success is judged by the
		// completeness of the (regular) file like any other
		if st, serr := os.Lstat(p); serr == nil && st.Mode()&os.ModeSymlink == 0 && st.Mode().IsRegular() {
			mustFail = false
			r.count("probe.io.symlink-replaced-not-followed")
		}
	}
	if err != nil {
		r.count("fault." + f.kind)
		r.NonTrivial = true
		if f.kind != "dir" && fileExists(p) {
			st, _ := os.Lstat(p)
			r.fail("C17.file-left-behind", op, "%s returned %v but left %q behind (%d bytes)", what, err, filepath.Base(p), st.Size())
		}
		r.evv(op+" "+f.kind, "%s -> error, no file", what)
		return
	}
	if mustFail {
		st, serr := os.Lstat(p)
		var sz int64 = -1
		if serr == nil {
			sz = st.Size()
		}
		r.fail("C17.success-incomplete", op, "%s reported success although the destination could not take the output (file size now %d)", what, sz)
	}
	checkComplete()
	r.evv(op+" "+f.kind, "%s -> success, complete", what)
}

// ---------------------------------------------------------------------------
// C18

func cancelledMerges(r *RunCtx) {
	c := r.ch
	w := newWorld(r, c.Choose(3, "cfg.syn") == 0, vectorsBuild)
	defer w.CloseAll()
	zap.DefaultFileMergerBufferSize = []int{16, 64, 256, 4096, 1 << 20}[c.Choose(5, "io.mergebuf")]
	w.smallWorld(len(w.Cfg.SynFields) > 0, vectorsBuild)
	sc := w.genMergeScenario()
	ref := w.referenceMerge(sc)
	K := ref.K
	E := len(ref.eng)
	thorough := r.Tier == "thorough"
	// cancellation instants: 0 = before the call, k in 1..K = inside the k-th
	// write callback, K+1.. = inside the e-th engine call, -1 = after return
	type instant struct {
		k, e int
	}
	var inst []instant
	inst = append(inst, instant{0, 0}, instant{-1, 0})
	budget := 12
	if thorough {
		budget = 64
	}
	if K <= budget {
		for k := 1; k <= K; k++ {
			inst = append(inst, instant{k, 0})
		}
	} else {
		seen := map[int]bool{}
		for _, k := range []int{1, 2, K / 2, K - 1, K} {
			if k >= 1 && !seen[k] {
				seen[k] = true
				inst = append(inst, instant{k, 0})
			}
		}
		for len(seen) < budget {
			k := 1 + c.Choose(K, "cancel.k")
			if !seen[k] {
				seen[k] = true
				inst = append(inst, instant{k, 0})
			}
		}
	}
	for e := 1; e <= E && e <= budget; e++ {
		inst = append(inst, instant{0, e})
	}
	engineQuiesce()
	live0 := engineLive()
	for _, in := range inst {
		p := r.path("cancel")
		before := drawPrefill(r, int(ref.size), nil)
		writePrefill(r, p, int(ref.size), before)
		ch := make(chan struct{})
		closed := false
		doClose := func() {
			if !closed {
				closed = true
				close(ch)
			}
		}
		sr := &statsReporter{cb: func(n int) {
			if in.k > 0 && n == in.k {
				doClose()
			}
		}}
		resetEngineHooks()
		if in.e > 0 {
			ne := 0
			setEngineHook(func(op string, n int) error {
				ne++
				if ne == in.e {
					doClose()
				}
				return nil
			})
		}
		if in.k == 0 && in.e == 0 {
			doClose()
		}
		maps, size, err := plugin.Merge(sc.segs, sc.drops, p, ch, sr)
		resetEngineHooks()
		what := fmt.Sprintf("Merge(%s) with the channel closed", sc.desc)
		switch {
		case in.k == 0 && in.e == 0:
			what += " before the call"
		case in.k > 0:
			what += fmt.Sprintf(" in write callback %d of %d", in.k, K)
		case in.e > 0:
			what += fmt.Sprintf(" in engine call %d of %d (%s)", in.e, E, ref.eng[in.e-1])
		default:
			what += " after return"
		}
		if err != nil {
			if !errors.Is(err, segment.ErrClosed) {
				r.fail("C18.wrong-error", "Merge", "%s returned %v, not the closed error", what, err)
			}
			if fileExists(p) {
				// a file that was at the path before the call and has not been touched
				// is not a file this merge created or left behind (an implementation may
				// notice the cancellation before it goes near the path)
				now, _ := os.ReadFile(p)
				if before == nil || !bytes.Equal(now, before) {
					r.fail("C18.file-left-behind", "Merge", "%s returned the closed error but left a file behind (%d bytes)", what, len(now))
				}
				r.count("probe.cancel.preexisting-file-untouched")
			}
			r.count("fault.cancel.aborted")
			if closed && (in.k > 0 || in.e > 0) {
				r.NonTrivial = true
				r.count("probe.cancel.midway-aborted")
			}
			if !closed {
				r.fail("C18.wrong-error", "Merge", "%s returned the closed error although the channel was never closed", what)
			}
		} else {
			if in.k == 0 && in.e == 0 {
				r.fail("C18.not-cancelled", "Merge", "%s finished normally; a channel closed before the call must give the closed error and no file", what)
			}
			w.checkCompleteMerge("C18", what, p, maps, size, ref)
			r.count("fault.cancel.finished-normally")
			if in.k > 0 || in.e > 0 {
				r.NonTrivial = true
			}
		}
		os.Remove(p)
		if in.k == -1 {
			doClose()
		}
		engineQuiesce()
		if l := engineLive(); l > live0 {
			r.fail("C18.engine-leak", "Merge", "%s: %d vector indexes are still alive after the call (before: %d)", what, l, live0)
		}
		// which section a given write belongs to varies with zapx's map-ordered
		// section loop, so the outcome at instant k is not part of the run digest
		r.evv(fmt.Sprintf("cancel k=%d e=%d", in.k, in.e), "%s -> err=%v", what, err != nil)
	}
	// concurrent closer: a second task closes the channel at a scheduler-chosen yield
	if !r.tsan {
		sim := newSim(c, false, 2000)
		p := r.path("cancelc")
		ch := make(chan struct{})
		var maps [][]uint64
		var size uint64
		var err error
		finished := false
		closedAt := -1
		sr := &statsReporter{}
		sr.cb = func(n int) { sim.Yield("merge.reportBytesWritten") }
		sim.Spawn("merger", func(t *Task) {
			maps, size, err = plugin.Merge(sc.segs, sc.drops, p, ch, sr)
			finished = true
		})
		sim.Spawn("closer", func(t *Task) {
			delay := c.Choose(K+2, "cancel.delay")
			for i := 0; i < delay && !finished; i++ {
				sim.Yield("closer.wait")
			}
			closedAt = sr.n
			close(ch)
		})
		sim.Run()
		r.countN("sim.steps", sim.steps)
		r.countN("probe.sched.yield-under-lock-recoveries", sim.lockStalls)
		r.countN("sim.switches", sim.switches)
		r.sched(sim)
		for _, tk := range sim.tasks {
			if tk.panicV != nil {
				r.fail("panic", panicSite(tk.panicSt), "task panicked: %v\n%s", tk.panicV, tk.panicSt)
			}
		}
		what := fmt.Sprintf("Merge(%s) with a concurrent closer (closed after %d of %d write callbacks)", sc.desc, closedAt, K)
		if err != nil {
			if !errors.Is(err, segment.ErrClosed) {
				r.fail("C18.wrong-error", "Merge", "%s returned %v, not the closed error", what, err)
			}
			if fileExists(p) {
				r.fail("C18.file-left-behind", "Merge", "%s returned the closed error but left a file behind", what)
			}
			r.count("fault.cancel.concurrent-aborted")
		} else {
			w.checkCompleteMerge("C18", what, p, maps, size, ref)
			r.count("fault.cancel.concurrent-finished")
		}
		r.evv("concurrent closer", "%s -> err=%v", what, err != nil)
	}
	r.count("op.merge")
	r.Sample["ops"] = r.Events
}

// ---------------------------------------------------------------------------
// syscall-level faults through strace (ptrace): EIO from the n-th write, from
// fsync and from close on the output file. The worker re-executes itself as a
// child under `strace -P <target> -e inject=...`; the child replays the
// parent's choice trace up to this point, performs the one designated
// operation on <target>, writes the outcome to <target>.result and exits. Only
// syscalls that touch <target> are affected. If ptrace is not available the
// fault kind is counted as unavailable and nothing is judged.

type straceFault struct {
	sys  string
	when int
}

func (f straceFault) String() string { return fmt.Sprintf("strace %s #%d -> EIO", f.sys, f.when) }

var straceFaults = []straceFault{{"fsync", 1}, {"close", 1}, {"write", 1}, {"write", 2}}

type straceOutcome struct {
	Err   string     `json:"err"`
	Maps  [][]uint64 `json:"maps,omitempty"`
	Size  uint64     `json:"size"`
	Fired bool       `json:"fired"`
}

// straceChildOp is called by both parent and child at every strace-able
// operation. In the child it performs the designated one and exits.
func (r *RunCtx) straceChildOp(op func(path string) straceOutcome) {
	if r.straceTarget == "" {
		return
	}
	idx := r.straceSeen
	r.straceSeen++
	if idx != r.straceIdx {
		return
	}
	out := op(r.straceTarget)
	b, _ := json.Marshal(&out)
	os.WriteFile(r.straceTarget+".result", b, 0o600)
	os.Exit(0)
}

// runStraceChild re-executes this worker under strace for the idx-th
// strace-able operation of the run. ok=false: strace/ptrace unavailable or the
// child did not get there.
func (r *RunCtx) runStraceChild(f straceFault, target string, idx int) (out straceOutcome, ok bool) {
	strace, err := exec.LookPath("strace")
	if err != nil {
		return out, false
	}
	rf := ReplayFile{Property: r.Prop, Tier: r.Tier, Seed: 0, Run: r.Idx, Trace: append([]int(nil), r.ch.trace...)}
	tf := target + ".trace.json"
	b, _ := json.Marshal(&rf)
	if err := os.WriteFile(tf, b, 0o600); err != nil {
		return out, false
	}
	self, _ := os.Executable()
	args := []string{"-f", "-o", "/dev/null", "-P", target, "-e", "trace=" + f.sys,
		"-e", fmt.Sprintf("inject=%s:error=EIO:when=%d", f.sys, f.when),
		self, "-replay", tf, "-straceChild", target, "-straceIdx", fmt.Sprint(idx)}
	cmd := exec.Command(strace, args...)
	cmd.Stdout, cmd.Stderr = nil, nil
	done := make(chan error, 1)
	if err := cmd.Start(); err != nil {
		return out, false
	}
	go func() { done <- cmd.Wait() }()
	select {
	case <-done:
	case <-time.After(60 * time.Second):
		cmd.Process.Kill()
		<-done
		return out, false
	}
	rb, err := os.ReadFile(target + ".result")
	if err != nil {
		return out, false
	}
	if json.Unmarshal(rb, &out) != nil {
		return out, false
	}
	os.Remove(target + ".result")
	os.Remove(tf)
	return out, true
}
