package main

// Canonical answers: Extract walks the public read API of a segment and
// returns a sortable value; relations (Same, Merged) compare such values. All
// oracles are relative - they compare answers of the real code with other
// answers of the real code - so nothing here knows what analysis should have
// produced.

import (
	"bytes"
	"fmt"
	"math"
	"sort"
	"strings"

	"github.com/RoaringBitmap/roaring/v2"
	segment "github.com/blevesearch/scorch_segment_api/v2"
)

type CLoc struct {
	Field           string
	Pos, Start, End uint64
	AP              []uint64
}

type CHit struct {
	Doc  uint64
	Freq uint64
	Norm float64
	Locs []CLoc
}

type CTerm struct {
	Term  string
	Count uint64 // DictEntry.Count as reported by the dictionary iterator (C08 only)
	Hits  []CHit
}

type CStored struct {
	Field string
	Typ   byte
	Val   []byte
	AP    []uint64
}

type CSynPair struct {
	Syn string
	Doc uint32
}

type CThes struct {
	Keys  []string
	Pairs map[string][]CSynPair // sorted
	Err   string                // the thesaurus cannot be loaded (only with ExtractOpts.ThesErrOK)
}

type CVecHit struct {
	Doc   uint64
	Score float32
}

type CVecField struct {
	NumVecs uint64
	HasStat bool
	// per probe query: exhaustive (k = large) result list sorted by (doc, score)
	Results [][]CVecHit
}

type Canon struct {
	Count    uint64
	Fields   []string              // as returned by Fields()
	Terms    map[string][]CTerm    // field -> terms ascending
	Stored   [][]CStored           // doc -> ordered stored values (incl. _id first)
	DocIDs   [][]byte              // doc -> DocID
	DV       map[string][][]string // field -> doc -> sorted terms
	DVFields []string              // sorted VisitableDocValueFields
	Thes     map[string]*CThes
	Vec      map[string]*CVecField
	Beyond   []string
}

// ExtractOpts selects which parts of the surface are walked.
type ExtractOpts struct {
	ExtraFields []string // field names to probe in addition to Fields()
	Thesauri    []string // thesaurus names to probe (in addition to Fields())
	VecFields   []string
	VecProbes   [][]float32
	NoVectors   bool
	// ThesErrOK: a thesaurus that cannot be loaded is an answer, not a failure of
	// the walk (worlds that contain a zero-length synonym, which the reader rejects)
	ThesErrOK bool
}

func copyU64(a []uint64) []uint64 {
	if len(a) == 0 {
		return nil
	}
	return append([]uint64(nil), a...)
}

func uniqSorted(a []string) []string {
	b := append([]string(nil), a...)
	sort.Strings(b)
	out := b[:0]
	for i, s := range b {
		if i == 0 || s != b[i-1] {
			out = append(out, s)
		}
	}
	return out
}

func extractTerms(seg segment.Segment, field string) ([]CTerm, error) {
	dict, err := seg.Dictionary(field)
	if err != nil {
		return nil, fmt.Errorf("Dictionary(%q): %v", field, err)
	}
	itr := dict.AutomatonIterator(nil, nil, nil)
	var terms []CTerm
	for {
		e, err := itr.Next()
		if err != nil {
			return nil, fmt.Errorf("dict iterator %q: %v", field, err)
		}
		if e == nil {
			break
		}
		terms = append(terms, CTerm{Term: e.Term, Count: e.Count})
	}
	for i := range terms {
		hits, err := extractHits(dict, []byte(terms[i].Term), nil)
		if err != nil {
			return nil, fmt.Errorf("field %q term %q: %v", field, terms[i].Term, err)
		}
		terms[i].Hits = hits
	}
	return terms, nil
}

func postingToHit(p segment.Posting) CHit {
	h := CHit{Doc: p.Number(), Freq: p.Frequency(), Norm: p.Norm()}
	for _, l := range p.Locations() {
		h.Locs = append(h.Locs, CLoc{Field: l.Field(), Pos: l.Pos(), Start: l.Start(), End: l.End(), AP: copyU64(l.ArrayPositions())})
	}
	return h
}

func extractHits(dict segment.TermDictionary, term []byte, except *roaring.Bitmap) ([]CHit, error) {
	pl, err := dict.PostingsList(term, except, nil)
	if err != nil {
		return nil, err
	}
	it := pl.Iterator(true, true, true, nil)
	var hits []CHit
	for {
		p, err := it.Next()
		if err != nil {
			return nil, err
		}
		if p == nil {
			break
		}
		hits = append(hits, postingToHit(p))
		if len(hits) > 1<<22 {
			return nil, fmt.Errorf("runaway postings iteration")
		}
	}
	return hits, nil
}

func extractStored(seg segment.Segment, doc uint64) ([]CStored, error) {
	var vals []CStored
	err := seg.VisitStoredFields(doc, func(field string, typ byte, value []byte, pos []uint64) bool {
		vals = append(vals, CStored{Field: field, Typ: typ, Val: append([]byte(nil), value...), AP: copyU64(pos)})
		return true
	})
	return vals, err
}

func extractDV(seg segment.Segment, doc uint64, fields []string, st segment.DocVisitState) (map[string][]string, segment.DocVisitState, error) {
	dvs, ok := seg.(segment.DocValueVisitable)
	if !ok {
		return nil, st, fmt.Errorf("segment is not DocValueVisitable")
	}
	out := map[string][]string{}
	st2, err := dvs.VisitDocValues(doc, fields, func(field string, term []byte) {
		out[field] = append(out[field], string(term))
	}, st)
	for f := range out {
		sort.Strings(out[f])
	}
	return out, st2, err
}

func extractThes(seg segment.Segment, name string) (*CThes, error) {
	ts, ok := seg.(segment.ThesaurusSegment)
	if !ok {
		return nil, fmt.Errorf("segment is not a ThesaurusSegment")
	}
	th, err := ts.Thesaurus(name)
	if err != nil {
		return nil, fmt.Errorf("Thesaurus(%q): %v", name, err)
	}
	ct := &CThes{Pairs: map[string][]CSynPair{}}
	itr := th.AutomatonIterator(nil, nil, nil)
	for {
		e, err := itr.Next()
		if err != nil {
			return nil, fmt.Errorf("thesaurus iterator %q: %v", name, err)
		}
		if e == nil {
			break
		}
		ct.Keys = append(ct.Keys, e.Term)
	}
	for _, k := range ct.Keys {
		pairs, err := extractSyn(th, k, nil)
		if err != nil {
			return nil, fmt.Errorf("thesaurus %q term %q: %v", name, k, err)
		}
		ct.Pairs[k] = pairs
		// Contains agrees with the key iteration
		if ok, err := th.Contains([]byte(k)); err != nil || !ok {
			return nil, fmt.Errorf("thesaurus %q: key %q is iterated but Contains says %v (err %v)", name, k, ok, err)
		}
	}
	if ok, err := th.Contains([]byte("\x01no-such-key")); err != nil || ok {
		return nil, fmt.Errorf("thesaurus %q: Contains of an absent key says %v (err %v)", name, ok, err)
	}
	// the same lookups again, this time handing the previous list and iterator
	// back as preallocation, with an absent term between every two keys: the
	// answers do not depend on what the recycled objects held before
	var preL segment.SynonymsList
	var preI segment.SynonymsIterator
	lookup := func(term string) ([]CSynPair, error) {
		sl, err := th.SynonymsList([]byte(term), nil, preL)
		if err != nil {
			return nil, err
		}
		preL = sl
		it := sl.Iterator(preI)
		preI = it
		var pairs []CSynPair
		for {
			s, err := it.Next()
			if err != nil {
				return nil, err
			}
			if s == nil {
				break
			}
			pairs = append(pairs, CSynPair{Syn: s.Term(), Doc: s.Number()})
			if len(pairs) > 1<<20 {
				return nil, fmt.Errorf("runaway synonyms iteration")
			}
		}
		sort.Slice(pairs, func(a, b int) bool {
			if pairs[a].Syn != pairs[b].Syn {
				return pairs[a].Syn < pairs[b].Syn
			}
			return pairs[a].Doc < pairs[b].Doc
		})
		return pairs, nil
	}
	for _, k := range ct.Keys {
		got, err := lookup(k)
		if err != nil {
			return nil, fmt.Errorf("thesaurus %q term %q with recycled list: %v", name, k, err)
		}
		want := ct.Pairs[k]
		if len(got) != len(want) {
			return nil, fmt.Errorf("thesaurus %q term %q: %v with a recycled list, %v with a fresh one", name, k, got, want)
		}
		for i := range got {
			if got[i] != want[i] {
				return nil, fmt.Errorf("thesaurus %q term %q: %v with a recycled list, %v with a fresh one", name, k, got, want)
			}
		}
		none, err := lookup(k + "\x01absent")
		if err != nil {
			return nil, fmt.Errorf("thesaurus %q absent term with recycled list: %v", name, err)
		}
		if len(none) != 0 {
			return nil, fmt.Errorf("thesaurus %q: an absent term looked up with a recycled list yields %v", name, none)
		}
	}
	return ct, nil
}

func extractSyn(th segment.Thesaurus, term string, except *roaring.Bitmap) ([]CSynPair, error) {
	sl, err := th.SynonymsList([]byte(term), except, nil)
	if err != nil {
		return nil, err
	}
	it := sl.Iterator(nil)
	var pairs []CSynPair
	for {
		s, err := it.Next()
		if err != nil {
			return nil, err
		}
		if s == nil {
			break
		}
		pairs = append(pairs, CSynPair{Syn: s.Term(), Doc: s.Number()})
		if len(pairs) > 1<<20 {
			return nil, fmt.Errorf("runaway synonyms iteration")
		}
	}
	sort.Slice(pairs, func(a, b int) bool {
		if pairs[a].Syn != pairs[b].Syn {
			return pairs[a].Syn < pairs[b].Syn
		}
		return pairs[a].Doc < pairs[b].Doc
	})
	return pairs, nil
}

// Extract walks the complete read surface.
func Extract(seg segment.Segment, o *ExtractOpts) (c *Canon, err error) {
	c = &Canon{Terms: map[string][]CTerm{}, DV: map[string][][]string{}, Thes: map[string]*CThes{}, Vec: map[string]*CVecField{}}
	c.Count = seg.Count()
	c.Fields = append([]string(nil), seg.Fields()...)
	probe := uniqSorted(append(append([]string(nil), c.Fields...), o.ExtraFields...))
	for _, f := range probe {
		t, err := extractTerms(seg, f)
		if err != nil {
			return nil, err
		}
		if len(t) > 0 {
			c.Terms[f] = t
		}
	}
	for d := uint64(0); d < c.Count; d++ {
		sv, err := extractStored(seg, d)
		if err != nil {
			return nil, fmt.Errorf("VisitStoredFields(%d): %v", d, err)
		}
		c.Stored = append(c.Stored, sv)
		id, err := seg.DocID(d)
		if err != nil {
			return nil, fmt.Errorf("DocID(%d): %v", d, err)
		}
		c.DocIDs = append(c.DocIDs, append([]byte(nil), id...))
	}
	// beyond Count: recorded, compared relatively
	for _, d := range []uint64{c.Count, c.Count + 7} {
		sv, err := extractStored(seg, d)
		id, err2 := seg.DocID(d)
		c.Beyond = append(c.Beyond, fmt.Sprintf("+%d: %d values err=%v id=%q err=%v", d-c.Count, len(sv), err, id, err2))
	}
	if dvs, ok := seg.(segment.DocValueVisitable); ok {
		dvf, err := dvs.VisitableDocValueFields()
		if err != nil {
			return nil, fmt.Errorf("VisitableDocValueFields: %v", err)
		}
		c.DVFields = uniqSorted(dvf)
		if len(dvf) != len(c.DVFields) {
			return nil, fmt.Errorf("VisitableDocValueFields has duplicates: %q", dvf)
		}
		for d := uint64(0); d < c.Count; d++ {
			m, _, err := extractDV(seg, d, probe, nil)
			if err != nil {
				return nil, fmt.Errorf("VisitDocValues(%d): %v", d, err)
			}
			for f, terms := range m {
				if c.DV[f] == nil {
					c.DV[f] = make([][]string, c.Count)
				}
				c.DV[f][d] = terms
			}
		}
	}
	for _, name := range uniqSorted(append(append([]string(nil), c.Fields...), o.Thesauri...)) {
		ct, err := extractThes(seg, name)
		if err != nil {
			if o.ThesErrOK && strings.HasPrefix(err.Error(), "Thesaurus(") {
				c.Thes[name] = &CThes{Err: err.Error()}
				continue
			}
			return nil, err
		}
		if len(ct.Keys) > 0 {
			c.Thes[name] = ct
		}
	}
	if !o.NoVectors {
		if err := extractVectors(seg, o, c); err != nil {
			return nil, err
		}
	}
	return c, nil
}

// ---------------------------------------------------------------------------
// comparison

func eqU64(a, b []uint64) bool {
	if len(a) != len(b) {
		return false
	}
	for i := range a {
		if a[i] != b[i] {
			return false
		}
	}
	return true
}

func eqStr(a, b []string) bool {
	if len(a) != len(b) {
		return false
	}
	for i := range a {
		if a[i] != b[i] {
			return false
		}
	}
	return true
}

func hitString(h *CHit) string {
	var sb strings.Builder
	fmt.Fprintf(&sb, "doc=%d freq=%d norm=%v locs=[", h.Doc, h.Freq, h.Norm)
	for _, l := range h.Locs {
		fmt.Fprintf(&sb, "(%s %d %d %d %v)", l.Field, l.Pos, l.Start, l.End, l.AP)
	}
	sb.WriteString("]")
	return sb.String()
}

func eqHit(a, b *CHit) bool {
	if a.Doc != b.Doc || a.Freq != b.Freq || len(a.Locs) != len(b.Locs) {
		return false
	}
	if a.Norm != b.Norm && !(math.IsNaN(a.Norm) && math.IsNaN(b.Norm)) {
		return false
	}
	for i := range a.Locs {
		x, y := &a.Locs[i], &b.Locs[i]
		if x.Field != y.Field || x.Pos != y.Pos || x.Start != y.Start || x.End != y.End || !eqU64(x.AP, y.AP) {
			return false
		}
	}
	return true
}

func diffHits(a, b []CHit) string {
	n := len(a)
	if len(b) < n {
		n = len(b)
	}
	for i := 0; i < n; i++ {
		if !eqHit(&a[i], &b[i]) {
			return fmt.Sprintf("hit #%d: %s  vs  %s", i, hitString(&a[i]), hitString(&b[i]))
		}
	}
	if len(a) != len(b) {
		return fmt.Sprintf("%d hits vs %d hits", len(a), len(b))
	}
	return ""
}

// CmpParts selects the parts of two canonical values that are compared.
type CmpParts struct {
	Stored, Postings, DictCounts, DocValues, Thesauri, Vectors, FieldsList bool
}

var cmpAll = CmpParts{true, true, true, true, true, true, true}

func diffStored(a, b []CStored) string {
	if len(a) != len(b) {
		return fmt.Sprintf("%d stored values vs %d", len(a), len(b))
	}
	for i := range a {
		x, y := &a[i], &b[i]
		if x.Field != y.Field || x.Typ != y.Typ || !bytes.Equal(x.Val, y.Val) || !eqU64(x.AP, y.AP) {
			return fmt.Sprintf("stored value #%d: (%s %c %d bytes %v) vs (%s %c %d bytes %v)", i,
				x.Field, x.Typ, len(x.Val), x.AP, y.Field, y.Typ, len(y.Val), y.AP)
		}
	}
	return ""
}

// Same returns "" when a and b agree on the selected parts, else the first
// difference found.
func Same(a, b *Canon, p CmpParts) string {
	if a.Count != b.Count {
		return fmt.Sprintf("Count %d vs %d", a.Count, b.Count)
	}
	if p.FieldsList && !eqStr(a.Fields, b.Fields) {
		return fmt.Sprintf("Fields %q vs %q", a.Fields, b.Fields)
	}
	if p.Stored {
		for d := range a.Stored {
			if s := diffStored(a.Stored[d], b.Stored[d]); s != "" {
				return fmt.Sprintf("doc %d: %s", d, s)
			}
			if !bytes.Equal(a.DocIDs[d], b.DocIDs[d]) {
				return fmt.Sprintf("DocID(%d) %q vs %q", d, a.DocIDs[d], b.DocIDs[d])
			}
		}
		if !eqStr(a.Beyond, b.Beyond) {
			return fmt.Sprintf("reads beyond Count: %q vs %q", a.Beyond, b.Beyond)
		}
	}
	if p.Postings {
		if s := diffTerms(a.Terms, b.Terms, p.DictCounts); s != "" {
			return s
		}
	}
	if p.DocValues {
		if !eqStr(a.DVFields, b.DVFields) {
			return fmt.Sprintf("VisitableDocValueFields %q vs %q", a.DVFields, b.DVFields)
		}
		if s := diffDV(a.DV, b.DV); s != "" {
			return s
		}
	}
	if p.Thesauri {
		if s := diffThes(a.Thes, b.Thes); s != "" {
			return s
		}
	}
	if p.Vectors {
		if s := diffVec(a.Vec, b.Vec); s != "" {
			return s
		}
	}
	return ""
}

func sortedKeys[V any](m map[string]V) []string {
	ks := make([]string, 0, len(m))
	for k := range m {
		ks = append(ks, k)
	}
	sort.Strings(ks)
	return ks
}

func diffTerms(a, b map[string][]CTerm, counts bool) string {
	ka, kb := sortedKeys(a), sortedKeys(b)
	if !eqStr(ka, kb) {
		return fmt.Sprintf("fields with terms %q vs %q", ka, kb)
	}
	for _, f := range ka {
		ta, tb := a[f], b[f]
		n := len(ta)
		if len(tb) < n {
			n = len(tb)
		}
		for i := 0; i < n; i++ {
			if ta[i].Term != tb[i].Term {
				return fmt.Sprintf("field %q: term #%d %q vs %q", f, i, ta[i].Term, tb[i].Term)
			}
			if counts && ta[i].Count != tb[i].Count {
				return fmt.Sprintf("field %q term %q: dictionary count %d vs %d", f, ta[i].Term, ta[i].Count, tb[i].Count)
			}
			if s := diffHits(ta[i].Hits, tb[i].Hits); s != "" {
				return fmt.Sprintf("field %q term %q: %s", f, ta[i].Term, s)
			}
		}
		if len(ta) != len(tb) {
			return fmt.Sprintf("field %q: %d terms vs %d terms", f, len(ta), len(tb))
		}
	}
	return ""
}

func diffDV(a, b map[string][][]string) string {
	ka, kb := sortedKeys(a), sortedKeys(b)
	if !eqStr(ka, kb) {
		return fmt.Sprintf("fields yielding doc values %q vs %q", ka, kb)
	}
	for _, f := range ka {
		for d := range a[f] {
			if !eqStr(a[f][d], b[f][d]) {
				return fmt.Sprintf("doc values field %q doc %d: %q vs %q", f, d, a[f][d], b[f][d])
			}
		}
	}
	return ""
}

func diffThes(a, b map[string]*CThes) string {
	ka, kb := sortedKeys(a), sortedKeys(b)
	if !eqStr(ka, kb) {
		return fmt.Sprintf("thesauri %q vs %q", ka, kb)
	}
	for _, n := range ka {
		ta, tb := a[n], b[n]
		if ta.Err != tb.Err {
			return fmt.Sprintf("thesaurus %q: load error %q vs %q", n, ta.Err, tb.Err)
		}
		if !eqStr(ta.Keys, tb.Keys) {
			return fmt.Sprintf("thesaurus %q keys %q vs %q", n, ta.Keys, tb.Keys)
		}
		for _, k := range ta.Keys {
			pa, pb := ta.Pairs[k], tb.Pairs[k]
			if len(pa) != len(pb) {
				return fmt.Sprintf("thesaurus %q term %q: %v vs %v", n, k, pa, pb)
			}
			for i := range pa {
				if pa[i] != pb[i] {
					return fmt.Sprintf("thesaurus %q term %q: %v vs %v", n, k, pa, pb)
				}
			}
		}
	}
	return ""
}

func diffVec(a, b map[string]*CVecField) string {
	ka, kb := sortedKeys(a), sortedKeys(b)
	if !eqStr(ka, kb) {
		return fmt.Sprintf("vector fields %q vs %q", ka, kb)
	}
	for _, f := range ka {
		va, vb := a[f], b[f]
		if va.NumVecs != vb.NumVecs || va.HasStat != vb.HasStat {
			return fmt.Sprintf("vector field %q: num_vectors %d(%v) vs %d(%v)", f, va.NumVecs, va.HasStat, vb.NumVecs, vb.HasStat)
		}
		if len(va.Results) != len(vb.Results) {
			return fmt.Sprintf("vector field %q: %d probe results vs %d", f, len(va.Results), len(vb.Results))
		}
		for q := range va.Results {
			if s := diffVecHits(va.Results[q], vb.Results[q]); s != "" {
				return fmt.Sprintf("vector field %q probe %d: %s", f, q, s)
			}
		}
	}
	return ""
}

func diffVecHits(a, b []CVecHit) string {
	if len(a) != len(b) {
		return fmt.Sprintf("%v vs %v", a, b)
	}
	for i := range a {
		if a[i] != b[i] {
			return fmt.Sprintf("%v vs %v", a, b)
		}
	}
	return ""
}

func sortVecHits(h []CVecHit) {
	sort.Slice(h, func(i, j int) bool {
		if h[i].Doc != h[j].Doc {
			return h[i].Doc < h[j].Doc
		}
		return h[i].Score < h[j].Score
	})
}

// ---------------------------------------------------------------------------
// digest (FNV-1a 64 over a canonical rendering), used in event logs and for
// distinct-state counting

type digester struct{ h uint64 }

func newDigester() *digester { return &digester{h: 0xcbf29ce484222325} }
func (d *digester) b(p []byte) {
	for _, c := range p {
		d.h = (d.h ^ uint64(c)) * 0x100000001b3
	}
	d.h = (d.h ^ 0xff) * 0x100000001b3
}
func (d *digester) s(s string) { d.b([]byte(s)) }
func (d *digester) u(v uint64) {
	for i := 0; i < 8; i++ {
		d.h = (d.h ^ (v & 0xff)) * 0x100000001b3
		v >>= 8
	}
}

func (c *Canon) Digest() uint64 {
	d := newDigester()
	d.u(c.Count)
	for _, f := range c.Fields {
		d.s(f)
	}
	for _, f := range sortedKeys(c.Terms) {
		d.s(f)
		for _, t := range c.Terms[f] {
			d.s(t.Term)
			for _, h := range t.Hits {
				d.u(h.Doc)
				d.u(h.Freq)
				d.u(math.Float64bits(h.Norm))
				for _, l := range h.Locs {
					d.s(l.Field)
					d.u(l.Pos)
					d.u(l.Start)
					d.u(l.End)
					for _, a := range l.AP {
						d.u(a)
					}
				}
			}
		}
	}
	for i := range c.Stored {
		for _, v := range c.Stored[i] {
			d.s(v.Field)
			d.u(uint64(v.Typ))
			d.b(v.Val)
			for _, a := range v.AP {
				d.u(a)
			}
		}
	}
	for _, f := range sortedKeys(c.DV) {
		d.s(f)
		for _, ts := range c.DV[f] {
			for _, t := range ts {
				d.s(t)
			}
			d.u(0)
		}
	}
	for _, n := range sortedKeys(c.Thes) {
		d.s(n)
		t := c.Thes[n]
		d.s(t.Err)
		for _, k := range t.Keys {
			d.s(k)
			for _, p := range t.Pairs[k] {
				d.s(p.Syn)
				d.u(uint64(p.Doc))
			}
		}
	}
	for _, f := range sortedKeys(c.Vec) {
		d.s(f)
		v := c.Vec[f]
		d.u(v.NumVecs)
		for _, r := range v.Results {
			for _, h := range r {
				d.u(h.Doc)
				d.u(uint64(math.Float32bits(h.Score)))
			}
		}
	}
	return d.h
}
