//go:build vectors

package main

// veccache driver (C16, vectors build): histories of open(field, filtering,
// except) / search / filtered search / close-handle / expiry tick / segment
// close on one segment, single task or interleaved tasks. Every search must
// equal the same search on a fresh twin opened from the same bytes; the stub
// engine's accounting decides index lifetime (no use after close, no double
// close, nothing alive after the segment is closed).

import (
	"fmt"

	"github.com/RoaringBitmap/roaring/v2"
	faiss "github.com/blevesearch/go-faiss"
	segment "github.com/blevesearch/scorch_segment_api/v2"
	zap "github.com/blevesearch/zapx/v16"
)

func init() {
	drivers["C16"] = vecCacheHistories
}

type vcOp struct {
	Kind     string // open | search | fsearch | close | tick
	H        int    // handle slot (task-local)
	Field    string
	Filter   bool
	EngFail  bool // open: the engine fails the load of the index, should this open need one
	Except   []uint32
	HasEx    bool
	Q        []float32
	K        int64
	Eligible []uint64
}

type vcSearch struct {
	op     vcOp // the search
	open   vcOp // the open call of the handle it ran on
	got    []CVecHit
	err    string
	after  string
	wasHit bool
}

func (o *vcOp) except() *roaring.Bitmap {
	if !o.HasEx {
		return nil
	}
	return roaring.BitmapOf(o.Except...)
}

func vcOpString(o *vcOp) string {
	switch o.Kind {
	case "open":
		return fmt.Sprintf("open(h%d,%s,filtering=%v,except=%v/%v)", o.H, o.Field, o.Filter, o.HasEx, o.Except)
	case "search":
		return fmt.Sprintf("search(h%d,q=%v,k=%d)", o.H, o.Q, o.K)
	case "fsearch":
		return fmt.Sprintf("filtered-search(h%d,q=%v,k=%d,eligible=%v)", o.H, o.Q, o.K, o.Eligible)
	case "close":
		return fmt.Sprintf("close(h%d)", o.H)
	}
	return o.Kind
}

func searchOn(vi segment.VectorIndex, o *vcOp) ([]CVecHit, error) {
	if o.Kind == "fsearch" {
		return vecSearchAll(vi, o.Q, o.K, o.Eligible, true)
	}
	return vecSearchAll(vi, o.Q, o.K, nil, false)
}

// genVcOps draws the op list of one task. Handles are task-local slots; a
// search only runs on an open handle; every handle is closed at the end.
func genVcOps(c *Chooser, w *World, ndocs uint64, n int, withTicks, withFaults bool) []vcOp {
	var ops []vcOp
	open := map[int]*vcOp{}
	fields := []string{}
	for _, f := range w.Cfg.VecFields {
		fields = append(fields, f.Name)
	}
	fields = append(fields, "f0")
	dimsOf := map[string]int{}
	for _, f := range w.Cfg.VecFields {
		dimsOf[f.Name] = f.Dims
	}
	nextH := 0
	for i := 0; i < n; i++ {
		k := c.Choose(10, "vc.op")
		switch {
		case k < 3 || len(open) == 0:
			o := vcOp{Kind: "open", H: nextH, Field: fields[c.Skewed(len(fields), "vc.field")], Filter: c.Bool("vc.filter")}
			nextH++
			switch c.Choose(4, "vc.exkind") {
			case 0:
			case 1:
				o.HasEx = true
			default:
				o.HasEx = true
				for d := uint64(0); d < ndocs; d++ {
					if c.Choose(3, "vc.exbit") == 0 {
						o.Except = append(o.Except, uint32(d))
					}
				}
			}
			if withFaults && c.Prob(1, 10, "vc.engfail") {
				// the engine refuses to load the index for this open (if it has to be
				// loaded): the open fails and nothing else changes - in particular the
				// failure is not remembered
				o.EngFail = true
				ops = append(ops, o)
				continue
			}
			ops = append(ops, o)
			oo := o
			open[o.H] = &oo
		case k < 7:
			hs := sortedIntKeys(open)
			h := hs[c.Choose(len(hs), "vc.h")]
			oh := open[h]
			o := vcOp{Kind: "search", H: h}
			d := dimsOf[oh.Field]
			if d == 0 || c.Prob(1, 10, "vc.wrongdim") {
				d = 2 + c.Choose(3, "vc.dim")
			}
			o.Q = make([]float32, d)
			for j := range o.Q {
				o.Q[j] = float32(c.Choose(7, "vc.q")) - 3
			}
			o.K = int64([]int{1, 2, 3, 5, 100}[c.Choose(5, "vc.k")])
			if oh.Filter && c.Bool("vc.filtered") {
				o.Kind = "fsearch"
				ex := map[uint32]bool{}
				for _, d := range oh.Except {
					ex[d] = true
				}
				switch c.Choose(4, "vc.elig") {
				case 0:
				case 1:
					for d := uint64(0); d < ndocs; d++ {
						if !ex[uint32(d)] {
							o.Eligible = append(o.Eligible, d)
						}
					}
				default:
					for d := uint64(0); d < ndocs; d++ {
						if !ex[uint32(d)] && c.Bool("vc.eligbit") {
							o.Eligible = append(o.Eligible, d)
						}
					}
				}
			}
			ops = append(ops, o)
		case k < 9:
			hs := sortedIntKeys(open)
			h := hs[c.Choose(len(hs), "vc.closeh")]
			ops = append(ops, vcOp{Kind: "close", H: h})
			delete(open, h)
		default:
			if withTicks {
				// a burst of ticks: an idle entry needs several passes before its
				// moving average decays below the eviction threshold
				nt := 1 + c.Choose(12, "vc.nticks")
				for j := 0; j < nt; j++ {
					ops = append(ops, vcOp{Kind: "tick"})
				}
			}
		}
	}
	for _, h := range sortedIntKeys(open) {
		ops = append(ops, vcOp{Kind: "close", H: h})
	}
	// idle phase at the end of some histories: everything closed, ticks until
	// eviction, then one more open + search (reload after eviction)
	if withTicks && c.Bool("vc.idlephase") {
		for j := 0; j < 10; j++ {
			ops = append(ops, vcOp{Kind: "tick"})
		}
		o := vcOp{Kind: "open", H: nextH, Field: fields[0], Filter: c.Bool("vc.filter2")}
		ops = append(ops, o)
		q := make([]float32, dimsOf[fields[0]])
		for j := range q {
			q[j] = float32(c.Choose(7, "vc.q2")) - 3
		}
		ops = append(ops, vcOp{Kind: "search", H: nextH, Q: q, K: 3})
		ops = append(ops, vcOp{Kind: "close", H: nextH})
	}
	return ops
}

func sortedIntKeys(m map[int]*vcOp) []int {
	var ks []int
	for k := range m {
		ks = append(ks, k)
	}
	for i := 1; i < len(ks); i++ {
		for j := i; j > 0 && ks[j] < ks[j-1]; j-- {
			ks[j], ks[j-1] = ks[j-1], ks[j]
		}
	}
	return ks
}

func vecCacheHistories(r *RunCtx) {
	c := r.ch
	w := newWorld(r, false, true)
	defer w.CloseAll()
	nd := 1 + c.Choose(12, "vc.ndocs")
	if c.Prob(1, 25, "vc.ivf") {
		nd = 1000 + c.Choose(100, "vc.ivfN") // clustered index class
		w.Cfg.Fields = w.Cfg.Fields[:1]
		w.Cfg.MaxToks = 1
	}
	spec := genBatch(c, w.Cfg, nd, nd*2+4)
	mem := w.Build(spec, nil)
	w.Add(mem)
	ndocs := mem.Seg.Count()
	path := r.path("vc")
	if err := mem.Seg.(segment.UnpersistedSegment).Persist(path); err != nil {
		r.fail("persist-error", "Persist", "%v", err)
	}
	var seg segment.Segment
	kind := "mmap"
	if c.Choose(4, "vc.memory") == 0 {
		seg = mem.Seg // in-memory instance; the twin is opened from its persisted bytes
		kind = "mem"
	} else {
		s, err := plugin.Open(path)
		if err != nil {
			r.fail("open-error", "Open", "%v", err)
		}
		seg = s
	}
	vs := seg.(segment.VectorSegment)
	engineQuiesce()
	base := faiss.Snapshot()

	concurrent := c.Choose(3, "vc.concurrent") == 0
	nt := 1
	if concurrent {
		nt = 2 + c.Choose(3, "vc.ntasks")
	}
	opsOf := make([][]vcOp, nt)
	for t := range opsOf {
		opsOf[t] = genVcOps(c, w, ndocs, 4+c.Choose(14, "vc.nops"), !concurrent || t == 0, !concurrent)
	}
	results := make([][]vcSearch, nt)
	errsOf := make([]string, nt)
	ticks, evictions, reloads := 0, 0, 0
	evictedOnce := false

	runOps := func(t int, yield func(string)) {
		handles := map[int]segment.VectorIndex{}
		opens := map[int]vcOp{}
		for i := range opsOf[t] {
			o := &opsOf[t][i]
			switch o.Kind {
			case "open":
				if o.EngFail {
					fired := false
					faiss.Hook = func(op string, n int) error {
						if op == "ReadIndexFromBuffer" && !fired {
							fired = true
							return errEngine
						}
						return nil
					}
					vi, err := vs.InterpretVectorIndex(o.Field, o.Filter, o.except())
					faiss.Hook = nil
					if fired {
						r.count("fault.engine.load-failed-in-open")
						if err == nil {
							if errsOf[t] == "" {
								errsOf[t] = fmt.Sprintf("%s: the engine failed to load the index, the open reported no error", vcOpString(o))
							}
						}
					}
					if err == nil && vi != nil {
						vi.Close()
					}
					continue
				}
				vi, err := vs.InterpretVectorIndex(o.Field, o.Filter, o.except())
				if err != nil {
					if errsOf[t] == "" {
						errsOf[t] = fmt.Sprintf("%s failed: %v", vcOpString(o), err)
					}
					continue
				}
				handles[o.H] = vi
				opens[o.H] = *o
			case "search", "fsearch":
				vi := handles[o.H]
				if vi == nil {
					continue
				}
				got, err := searchOn(vi, o)
				s := vcSearch{op: *o, open: opens[o.H], got: got}
				if err != nil {
					s.err = err.Error()
				}
				results[t] = append(results[t], s)
			case "close":
				if vi := handles[o.H]; vi != nil {
					vi.Close()
					delete(handles, o.H)
				}
			case "tick":
				ev, _ := zap.VerifVecCacheExpire(seg)
				ticks++
				evictions += ev
				if ev > 0 {
					evictedOnce = true
				}
				if !r.tsan {
					engineQuiesce()
					// an index held by an open handle must survive the tick
					for h, vi := range handles {
						oo := opens[h]
						q := make([]float32, 2)
						vi.Search(q, 1, nil)
						if ua := faiss.Snapshot().UsedAfterClose - base.UsedAfterClose; ua != 0 && errsOf[t] == "" {
							errsOf[t] = fmt.Sprintf("after an expiry tick the index behind the open handle of %s had been released", vcOpString(&oo))
						}
					}
				}
			}
			if yield != nil {
				yield("betweenOps")
			}
		}
	}

	if !concurrent {
		runOps(0, nil)
	} else {
		sim := newSim(c, r.tsan, 3000)
		zap.VerifYield = func(site string) { sim.Yield("zapx:" + site) }
		for t := 0; t < nt; t++ {
			t := t
			sim.Spawn(fmt.Sprintf("searcher%d", t), func(tk *Task) { runOps(t, sim.Yield) })
		}
		sim.Run()
		zap.VerifYield = nil
		r.countN("sim.steps", sim.steps)
		r.countN("probe.sched.yield-under-lock-recoveries", sim.lockStalls)
		r.countN("sim.switches", sim.switches)
		for site, n := range sim.siteCounts {
			r.countN("probe.yield."+site, n)
		}
		r.sched(sim)
		for t, tk := range sim.tasks {
			if tk.panicV != nil {
				r.fail("panic", panicSite(tk.panicSt), "task %d panicked: %v\n%s", t, tk.panicV, tk.panicSt)
			}
		}
		if sim.switches > nt {
			r.NonTrivial = true
		}
		r.Sample["schedule_prefix"] = string(sim.schedTrace)
	}
	r.countN("sim.ticks", ticks)
	r.countN("fault.expiry.evictions", evictions)
	for t := range errsOf {
		if errsOf[t] != "" {
			r.fail("C16.lifetime", "vectorIndexCache", "task %d: %s", t, errsOf[t])
		}
	}
	// reach: was some search served by a cache entry that another open had created?
	type key struct{ f string }
	created := map[string]string{}
	for t := range opsOf {
		for i := range opsOf[t] {
			o := &opsOf[t][i]
			if o.Kind == "open" {
				sig := fmt.Sprint(o.HasEx, o.Except)
				if prev, ok := created[o.Field]; ok && prev != sig {
					r.NonTrivial = true
					r.count("probe.vc.entry-shared-across-except-bitmaps")
				} else if !ok {
					created[o.Field] = sig
				}
				if evictedOnce {
					reloads++
				}
			}
		}
	}
	if evictedOnce && reloads > 0 {
		r.NonTrivial = true
		r.count("probe.vc.eviction-then-reload")
	}

	// segment close: nothing may stay alive, nothing was closed twice or used after close
	if kind == "mmap" {
		if err := seg.Close(); err != nil {
			r.fail("C16.lifetime", "Close", "closing the segment: %v", err)
		}
	} else {
		if err := mem.Seg.Close(); err != nil {
			r.fail("C16.lifetime", "Close", "closing the in-memory segment: %v", err)
		}
		mem.Seg = nil
	}
	if !r.tsan {
		engineQuiesce()
		now := faiss.Snapshot()
		if now.Live != base.Live {
			r.fail("C16.leak", "vectorIndexCache", "%d native indexes are still alive after the segment was closed (created %d, closed %d during the run)",
				now.Live-base.Live, now.Created-base.Created, now.Closed-base.Closed)
		}
		if now.DoubleClosed != base.DoubleClosed {
			r.fail("C16.double-close", "vectorIndexCache", "a native index was released twice")
		}
		if now.UsedAfterClose != base.UsedAfterClose {
			r.fail("C16.use-after-close", "vectorIndexCache", "a native index was used after it had been released (%d times)", now.UsedAfterClose-base.UsedAfterClose)
		}
		r.countN("probe.vc.indexes-created", int(now.Created-base.Created))
	}

	// oracle 1: every search equals the same search on a fresh twin
	nsearch := 0
	for t := range results {
		for i := range results[t] {
			s := &results[t][i]
			twin, err := plugin.Open(path)
			if err != nil {
				r.fail("open-error", "Open(twin)", "%v", err)
			}
			tvi, err := twin.(segment.VectorSegment).InterpretVectorIndex(s.open.Field, s.open.Filter, s.open.except())
			if err != nil {
				r.fail("C16.error", "InterpretVectorIndex", "fresh twin: %v", err)
			}
			want, werr := searchOn(tvi, &s.op)
			tvi.Close()
			twin.Close()
			we := ""
			if werr != nil {
				we = werr.Error()
			}
			desc := fmt.Sprintf("task %d %s on handle %s (%s segment, %d docs)", t, vcOpString(&s.op), vcOpString(&s.open), kind, ndocs)
			// results of a clustered (IVF) index legitimately vary between executions:
			// zapx adds vectors in Go map iteration order, which decides their cluster in
			// any approximate engine (and in the stub); they are not part of the digest
			r.evv(desc, "%s -> %v", desc, s.got)
			r.state(hashString(desc))
			if s.err != we {
				r.fail("C16.history", "Search", "%s: error %q, on a fresh twin %q", desc, s.err, we)
			}
			if d := diffVecHits(want, s.got); d != "" {
				r.fail("C16.history", "Search", "%s: fresh twin vs cached segment: %s", desc, d)
			}
			nsearch++
		}
	}
	engineQuiesce()
	r.countN("op.vecsearch", nsearch)
	r.Sample["tasks"] = nt
	r.Sample["ops"] = r.Events
}
