package main

// readers driver (C11): reader tasks over shared segments, interleaved by the
// seeded scheduler at every harness callback and zapx yield hook. Every call
// must return what it returns solo (computed afterwards on a twin instance),
// bytes handed to a stored-field visitor must stay unchanged across a yield
// inside the callback, and no scratch object may be owned twice. The same
// seeds run once more in the -race binary under the invisible baton.

import (
	"bytes"
	"fmt"
	"os"
	"strings"
	"sync"

	"github.com/RoaringBitmap/roaring/v2"
	segment "github.com/blevesearch/scorch_segment_api/v2"
	zap "github.com/blevesearch/zapx/v16"
)

func init() {
	drivers["C11"] = concurrentReaders
}

type ropKind int

const (
	ropTerm ropKind = iota
	ropDict
	ropVisit
	ropDocID
	ropDocNumbers
	ropDV
	ropThes
	ropMerge
	ropKinds
)

// rop is one pre-drawn reader operation (no closures, no shared state).
type rop struct {
	Kind   ropKind
	Seg    int
	Field  string
	Term   string
	Except []uint32
	Flags  [3]bool
	Doc    uint64
	Stop   int // visit: stop after this many callbacks (-1: never)
	Nest   int // visit: 0 none, 1 nested visit of Doc2, 2 DocID(Doc2) inside the callback
	Doc2   uint64
	YieldK int // visit: yield inside the k-th callback (and every callback when <0)
	IDs    []string
	Docs   []uint64 // dv: documents visited with one private state
	Fields []string
	Prefix string
	Segs   []int      // merge inputs
	Drops  [][]uint32 // merge
	HasDrp []bool
	Path   string
}

func exceptOf(v []uint32) *roaring.Bitmap {
	if v == nil {
		return nil
	}
	return roaring.BitmapOf(v...)
}

func genRop(c *Chooser, w *World, segs []*SegH, r *RunCtx) rop {
	var o rop
	o.Seg = c.Choose(len(segs), "rop.seg")
	h := segs[o.Seg]
	fields := append([]string{"nosuchfield"}, h.Canon.Fields...)
	o.Field = fields[c.Choose(len(fields), "rop.field")]
	nd := h.Canon.Count
	pickDoc := func(label string) uint64 {
		if nd == 0 {
			return 0
		}
		return uint64(c.Choose(int(nd)+1, label)) // may be == Count (beyond)
	}
	o.Kind = ropKind(c.Choose(int(ropKinds), "rop.kind"))
	if o.Kind == ropMerge && c.Choose(3, "rop.mergeless") != 0 {
		o.Kind = ropVisit
	}
	switch o.Kind {
	case ropTerm:
		ref := h.Canon.Terms[o.Field]
		if len(ref) > 0 && c.Choose(5, "rop.term.existing") != 0 {
			o.Term = ref[c.Choose(len(ref), "rop.term")].Term
		} else {
			o.Term = genTerm(c, true)
		}
		if c.Bool("rop.except") {
			o.Except = []uint32{}
			for d := uint64(0); d < nd; d++ {
				if c.Choose(3, "rop.except.bit") == 0 {
					o.Except = append(o.Except, uint32(d))
				}
			}
		}
		o.Flags = [3]bool{c.Bool("rop.f0"), c.Bool("rop.f1"), c.Bool("rop.f2")}
	case ropDict:
		if c.Bool("rop.dict.prefix") {
			o.Prefix = alphabet[c.Choose(len(alphabet), "rop.dict.sym")]
		}
	case ropVisit:
		o.Doc = pickDoc("rop.visit.doc")
		switch c.Choose(4, "rop.visit.stop") {
		case 0:
			o.Stop = 1 // stop right after _id
		case 1:
			o.Stop = 2 + c.Choose(3, "rop.visit.stopn")
		default:
			o.Stop = -1
		}
		o.Nest = c.Choose(3, "rop.visit.nest")
		o.Doc2 = pickDoc("rop.visit.doc2")
		o.YieldK = c.Choose(5, "rop.visit.yieldk") - 1
	case ropDocID:
		o.Doc = pickDoc("rop.docid.doc")
	case ropDocNumbers:
		n := 1 + c.Choose(4, "rop.docnum.n")
		for i := 0; i < n; i++ {
			if nd > 0 && c.Bool("rop.docnum.existing") {
				o.IDs = append(o.IDs, string(h.Canon.DocIDs[c.Choose(int(nd), "rop.docnum.doc")]))
			} else {
				o.IDs = append(o.IDs, idString(c.Choose(60, "rop.docnum.id")))
			}
		}
	case ropDV:
		n := 1 + c.Choose(5, "rop.dv.n")
		for i := 0; i < n && nd > 0; i++ {
			o.Docs = append(o.Docs, uint64(c.Choose(int(nd), "rop.dv.doc")))
		}
		nf := 1 + c.Choose(3, "rop.dv.nf")
		for i := 0; i < nf; i++ {
			o.Fields = append(o.Fields, fields[c.Choose(len(fields), "rop.dv.field")])
		}
	case ropThes:
		names := append([]string{"nosuchthesaurus"}, w.XOpts.Thesauri...)
		o.Field = names[c.Choose(len(names), "rop.thes.name")]
		if ct := h.Canon.Thes[o.Field]; ct != nil && len(ct.Keys) > 0 && c.Choose(4, "rop.thes.existing") != 0 {
			o.Term = ct.Keys[c.Choose(len(ct.Keys), "rop.thes.term")]
		} else {
			o.Term = genTerm(c, false)
		}
		if c.Bool("rop.thes.except") {
			o.Except = []uint32{}
			for d := uint64(0); d < nd; d++ {
				if c.Bool("rop.thes.except.bit") {
					o.Except = append(o.Except, uint32(d))
				}
			}
		}
	case ropMerge:
		n := 1 + c.Choose(2, "rop.merge.n")
		start := c.Choose(len(segs), "rop.merge.start")
		for k := 0; k < n && k < len(segs); k++ {
			si := (start + k) % len(segs)
			o.Segs = append(o.Segs, si)
			var dr []uint32
			has := c.Bool("rop.merge.hasdrops")
			if has {
				for d := uint64(0); d < segs[si].Canon.Count; d++ {
					if c.Choose(3, "rop.merge.dropbit") == 0 {
						dr = append(dr, uint32(d))
					}
				}
			}
			o.Drops = append(o.Drops, dr)
			o.HasDrp = append(o.HasDrp, has)
		}
		o.Path = r.path("cmerge")
	}
	return o
}

// readerEnv is the per-task execution environment.
type readerEnv struct {
	yield func(site string) // nil in a solo run
	xopts *ExtractOpts
	viol  *string // first visitor-stability violation seen by this task
	depth int
	// the postings list and iterator of this reader's previous term query, handed
	// back as preallocation to its next one (whatever term, field or segment that
	// is about): private to the reader, as the objects of a real searcher are
	preL segment.PostingsList
	preI segment.PostingsIterator
}

func (e *readerEnv) y(site string) {
	if e.yield != nil {
		e.yield(site)
	}
}

func hitsString(hits []CHit, flags [3]bool) string {
	var sb strings.Builder
	for i := range hits {
		h := &hits[i]
		fmt.Fprintf(&sb, "%d", h.Doc)
		if flags[0] || flags[1] || flags[2] {
			fmt.Fprintf(&sb, ":f%d:n%v", h.Freq, h.Norm)
		}
		if flags[2] {
			for _, l := range h.Locs {
				fmt.Fprintf(&sb, "(%s %d %d %d %v)", l.Field, l.Pos, l.Start, l.End, l.AP)
			}
		}
		sb.WriteByte(' ')
	}
	return sb.String()
}

// execRop executes one reader operation and returns its canonical result.
func execRop(e *readerEnv, o *rop, segs []segment.Segment) (res string) {
	defer func() {
		if rec := recover(); rec != nil {
			if _, ok := rec.(violationPanic); ok {
				panic(rec)
			}
			st := stackString()
			res = fmt.Sprintf("PANIC %v @%s", rec, panicSite(st))
		}
	}()
	seg := segs[o.Seg]
	switch o.Kind {
	case ropTerm:
		dict, err := seg.Dictionary(o.Field)
		if err != nil {
			return "ERR " + err.Error()
		}
		e.y("term.afterDictionary")
		pl, err := dict.PostingsList([]byte(o.Term), exceptOf(o.Except), e.preL)
		if err != nil {
			return "ERR " + err.Error()
		}
		cnt := pl.Count()
		it := pl.Iterator(o.Flags[0], o.Flags[1], o.Flags[2], e.preI)
		e.preL, e.preI = pl, it
		var hits []CHit
		for {
			p, err := it.Next()
			if err != nil {
				return "ERR " + err.Error()
			}
			if p == nil {
				break
			}
			hits = append(hits, postingToHit(p))
			if len(hits)%3 == 1 {
				e.y("term.midIteration")
			}
		}
		return fmt.Sprintf("count=%d hits=%s", cnt, hitsString(hits, o.Flags))
	case ropDict:
		dict, err := seg.Dictionary(o.Field)
		if err != nil {
			return "ERR " + err.Error()
		}
		var a segment.Automaton
		if o.Prefix != "" {
			a = &prefixAutomaton{[]byte(o.Prefix)}
		}
		it := dict.AutomatonIterator(a, nil, nil)
		var sb strings.Builder
		n := 0
		for {
			en, err := it.Next()
			if err != nil {
				return "ERR " + err.Error()
			}
			if en == nil {
				break
			}
			fmt.Fprintf(&sb, "%q:%d ", en.Term, en.Count)
			n++
			if n%4 == 1 {
				e.y("dict.midIteration")
			}
		}
		return fmt.Sprintf("card=%d %s", dict.Cardinality(), sb.String())
	case ropVisit:
		return e.visit(o, seg, o.Doc, o.Stop, o.Nest)
	case ropDocID:
		id, err := seg.DocID(o.Doc)
		if err != nil {
			return "ERR " + err.Error()
		}
		// the caller keeps the returned bytes while other readers run
		keep := append([]byte(nil), id...)
		wasNil := id == nil
		e.y("docid.holdingResult")
		if !bytes.Equal(keep, id) && e.viol != nil && *e.viol == "" {
			*e.viol = fmt.Sprintf("DocID(%d) returned %q, but the returned bytes read %q after other readers ran", o.Doc, keep, id)
		}
		return fmt.Sprintf("id=%q nil=%v", keep, wasNil)
	case ropDocNumbers:
		bm, err := seg.DocNumbers(o.IDs)
		if err != nil {
			return "ERR " + err.Error()
		}
		return fmt.Sprint(bm.ToArray())
	case ropDV:
		var st segment.DocVisitState
		var sb strings.Builder
		for _, d := range o.Docs {
			m, st2, err := extractDV(seg, d, o.Fields, st)
			if err != nil {
				return "ERR " + err.Error()
			}
			st = st2
			for _, f := range sortedKeys(m) {
				fmt.Fprintf(&sb, "%d/%s=%q ", d, f, m[f])
			}
			e.y("dv.betweenDocs")
		}
		return sb.String()
	case ropThes:
		ts, ok := seg.(segment.ThesaurusSegment)
		if !ok {
			return "not a thesaurus segment"
		}
		th, err := ts.Thesaurus(o.Field)
		if err != nil {
			return "ERR " + err.Error()
		}
		e.y("thes.afterThesaurus")
		pairs, err := extractSyn(th, o.Term, exceptOf(o.Except))
		if err != nil {
			return "ERR " + err.Error()
		}
		okc, err := th.Contains([]byte(o.Term))
		if err != nil {
			return "ERR " + err.Error()
		}
		return fmt.Sprintf("contains=%v %v", okc, pairs)
	case ropMerge:
		ins := make([]segment.Segment, len(o.Segs))
		drops := make([]*roaring.Bitmap, len(o.Segs))
		for i, si := range o.Segs {
			ins[i] = segs[si]
			if o.HasDrp[i] {
				drops[i] = roaring.BitmapOf(o.Drops[i]...)
			}
		}
		sr := &statsReporter{cb: func(n int) {
			if n%5 == 1 {
				e.y("merge.reportBytesWritten")
			}
		}}
		os.Remove(o.Path)
		maps, size, err := plugin.Merge(ins, drops, o.Path, nil, sr)
		if err != nil {
			return "ERR " + err.Error()
		}
		defer os.Remove(o.Path)
		out, err := plugin.Open(o.Path)
		if err != nil {
			return "ERR open " + err.Error()
		}
		defer out.Close()
		xo := *e.xopts
		xo.NoVectors = true
		cn, err := Extract(out, &xo)
		if err != nil {
			return "ERR extract " + err.Error()
		}
		_ = size
		return fmt.Sprintf("maps=%v digest=%x", maps, cn.Digest())
	}
	return "?"
}

// visit runs VisitStoredFields with a visitor that snapshots its arguments,
// yields, and re-checks them after it has been resumed.
func (e *readerEnv) visit(o *rop, seg segment.Segment, doc uint64, stop int, nest int) string {
	var sb strings.Builder
	n := 0
	e.depth++
	defer func() { e.depth-- }()
	err := seg.VisitStoredFields(doc, func(field string, typ byte, value []byte, pos []uint64) bool {
		n++
		vcopy := append([]byte(nil), value...)
		pcopy := copyU64(pos)
		if o.YieldK < 0 || o.YieldK == n {
			e.y("visit.insideCallback")
		}
		if nest != 0 && n == 2 && e.depth == 1 {
			// call back into the segment while the outer visit holds its scratch context
			switch nest {
			case 1:
				fmt.Fprintf(&sb, "{nested:%s}", e.visit(o, seg, o.Doc2, -1, 0))
			case 2:
				id, _ := seg.DocID(o.Doc2)
				fmt.Fprintf(&sb, "{docid:%q}", id)
			}
		}
		if !bytes.Equal(vcopy, value) || !eqU64(pcopy, pos) {
			if e.viol != nil && *e.viol == "" {
				*e.viol = fmt.Sprintf("doc %d field %q: bytes handed to the visitor changed during the callback (%d bytes, array positions %v -> %v)",
					doc, field, len(value), pcopy, pos)
			}
		}
		fmt.Fprintf(&sb, "%s/%c/%x/%v ", field, typ, vcopy, pcopy)
		return stop < 0 || n < stop
	})
	if err != nil {
		return "ERR " + err.Error()
	}
	return sb.String()
}

// ---------------------------------------------------------------------------
// pool ownership monitor (plain mode only)

type poolOwner struct {
	task  int
	frame int
}

type poolMonitor struct {
	out       map[interface{}]poolOwner
	sim       *Sim
	viol      string
	doublePut int
	crossTask int
	lastPut   map[interface{}]int
	frameSeq  int
}

func newPoolMonitor(sim *Sim) *poolMonitor {
	return &poolMonitor{out: map[interface{}]poolOwner{}, sim: sim, lastPut: map[interface{}]int{}}
}

func (m *poolMonitor) curTask() (int, *Task) {
	if t := m.sim.Current(); t != nil {
		return t.id, t
	}
	return -1, nil
}

func (m *poolMonitor) get(pool string, obj interface{}) {
	tid, t := m.curTask()
	if own, ok := m.out[obj]; ok {
		// the object is still marked as handed out: a violation only if the
		// frame it was handed to is still active (otherwise a Put went
		// unobserved, which is a hook inconsistency, not double ownership)
		active := false
		for _, tt := range m.sim.tasks {
			if tt.id == own.task {
				for _, f := range tt.frames {
					if f == own.frame {
						active = true
					}
				}
			}
		}
		if active && m.viol == "" {
			m.viol = fmt.Sprintf("pool %q handed one scratch object to task %d while task %d still holds it", pool, tid, own.task)
		}
	}
	frame := 0
	if t != nil && len(t.frames) > 0 {
		frame = t.frames[len(t.frames)-1]
	}
	m.out[obj] = poolOwner{task: tid, frame: frame}
	if lp, ok := m.lastPut[obj]; ok && lp != tid {
		m.crossTask++
	}
}

func (m *poolMonitor) put(pool string, obj interface{}) {
	tid, _ := m.curTask()
	if _, ok := m.out[obj]; !ok {
		m.doublePut++
	}
	delete(m.out, obj)
	m.lastPut[obj] = tid
}

// ---------------------------------------------------------------------------

type readerTask struct {
	ops     []rop
	results []string
	viol    string
}

// twinOf returns a second, independent instance of the same segment content.
func (w *World) twinOf(h *SegH) segment.Segment {
	if h.Path != "" {
		s, err := plugin.Open(h.Path)
		if err != nil {
			w.r.fail("open-error", "Open(twin)", "%v", err)
		}
		return s
	}
	flushPools()
	s, _, err := plugin.New(Materialize(h.Spec, nil))
	if err != nil {
		w.r.fail("build-error", "New(twin)", "%v", err)
	}
	return s
}

func concurrentReaders(r *RunCtx) {
	c := r.ch
	w := newWorldBadSyn(r, c.Choose(3, "cfg.syn") != 0, false)
	defer w.CloseAll()
	w.populate(1)
	// the shared segments: at most 3, fresh instances whose caches are cold
	var shared []*SegH
	for _, h := range w.Segs {
		if len(shared) < 3 && (len(shared) == 0 || c.Bool("cr.share")) {
			shared = append(shared, h)
		}
	}
	segs := make([]segment.Segment, len(shared))
	twins := make([]segment.Segment, len(shared))
	for i, h := range shared {
		twins[i] = w.twinOf(h)
		segs[i] = w.twinOf(h) // a cold instance: nothing has been read from it yet
	}
	defer func() {
		for i := range segs {
			segs[i].Close()
			twins[i].Close()
		}
	}()
	if r.tsan && c.Prob(1, 8, "cr.burst") {
		w.parallelReadBurst(shared, segs)
	}
	// history prefix: solo calls that shape the scratch pools
	flushPools()
	solo := &readerEnv{xopts: &w.XOpts}
	var sviol string
	solo.viol = &sviol
	np := c.Choose(7, "cr.prefix")
	for i := 0; i < np; i++ {
		o := genRop(c, w, shared, r)
		if o.Kind == ropMerge {
			continue
		}
		if c.Prob(1, 6, "cr.prefix.flush") {
			flushPools()
			r.ev("prefix: pool flush")
			r.count("fault.poolflush")
		}
		res := execRop(solo, &o, segs)
		r.ev("prefix: %s -> %s", ropString(&o), short(res))
	}
	// tasks with pre-drawn op lists
	nt := 2 + c.Choose(5, "cr.ntasks")
	tasks := make([]*readerTask, nt)
	for t := range tasks {
		tasks[t] = &readerTask{}
		no := 2 + c.Choose(7, "cr.nops")
		for k := 0; k < no; k++ {
			tasks[t].ops = append(tasks[t].ops, genRop(c, w, shared, r))
		}
	}
	sim := newSim(c, r.tsan, 4000)
	r.sim = sim
	var mon *poolMonitor
	if !r.tsan {
		mon = newPoolMonitor(sim)
		zap.VerifPoolGet = mon.get
		zap.VerifPoolPut = mon.put
	}
	zap.VerifYield = func(site string) { sim.Yield("zapx:" + site) }
	for t := range tasks {
		rt := tasks[t]
		sim.Spawn(fmt.Sprintf("reader%d", t), func(tk *Task) {
			env := &readerEnv{xopts: &w.XOpts, yield: sim.Yield, viol: &rt.viol}
			for k := range rt.ops {
				tk.frames = append(tk.frames, k+1)
				rt.results = append(rt.results, execRop(env, &rt.ops[k], segs))
				tk.frames = tk.frames[:len(tk.frames)-1]
				sim.Yield("betweenOps")
			}
		})
	}
	sim.Run()
	zap.VerifYield, zap.VerifPoolGet, zap.VerifPoolPut = nil, nil, nil
	r.countN("sim.steps", sim.steps)
	r.countN("probe.sched.yield-under-lock-recoveries", sim.lockStalls)
	r.countN("sim.switches", sim.switches)
	for site, n := range sim.siteCounts {
		r.countN("probe.yield."+site, n)
	}
	if mon != nil {
		r.countN("probe.pool.object-reused-across-tasks", mon.crossTask)
		r.countN("probe.pool.double-put-observed", mon.doublePut)
	}
	if sim.switches > nt {
		r.NonTrivial = true
	}
	r.sched(sim)
	// oracles
	for t, tk := range sim.tasks {
		if tk.panicV != nil {
			r.fail("panic", panicSite(tk.panicSt), "reader task %d panicked: %v\n%s", t, tk.panicV, tk.panicSt)
		}
	}
	for t, rt := range tasks {
		if rt.viol != "" {
			r.fail("C11.visitor-bytes", "VisitStoredFields", "task %d: %s", t, rt.viol)
		}
	}
	if mon != nil && mon.viol != "" {
		r.fail("C11.pool-ownership", "sync.Pool", "%s", mon.viol)
	}
	refEnv := &readerEnv{xopts: &w.XOpts}
	var rviol string
	refEnv.viol = &rviol
	for t, rt := range tasks {
		for k := range rt.ops {
			want := execRop(refEnv, &rt.ops[k], twins)
			got := rt.results[k]
			r.ev("task %d: %s -> %s", t, ropString(&rt.ops[k]), short(got))
			r.state(hashString(fmt.Sprintf("%d|%s|%s", t, ropString(&rt.ops[k]), got)))
			if got != want {
				r.fail("C11.solo-answer", ropName(rt.ops[k].Kind), "task %d op %d %s: concurrent result differs from the solo result\n concurrent: %s\n solo:       %s",
					t, k, ropString(&rt.ops[k]), short(got), short(want))
			}
			r.count("op." + ropName(rt.ops[k].Kind))
		}
	}
	if sviol != "" {
		r.fail("C11.visitor-bytes", "VisitStoredFields", "solo history prefix: %s", sviol)
	}
	if rviol != "" {
		r.fail("C11.visitor-bytes", "VisitStoredFields", "solo reference pass (after the concurrent phase): %s", rviol)
	}
	r.Sample["tasks"] = nt
	r.Sample["schedule_prefix"] = string(sim.schedTrace)
	r.Sample["ops"] = r.Events
}

func hashString(s string) uint64 {
	d := newDigester()
	d.s(s)
	return d.h
}

func short(s string) string {
	if len(s) > 300 {
		return s[:300] + "..."
	}
	return s
}

func ropName(k ropKind) string {
	return [...]string{"term", "dict", "visit", "docid", "docnumbers", "docvalues", "thesaurus", "merge"}[k]
}

func ropString(o *rop) string {
	switch o.Kind {
	case ropTerm:
		return fmt.Sprintf("term(seg%d,%q,%q,except=%v,flags=%v)", o.Seg, o.Field, o.Term, o.Except, o.Flags)
	case ropDict:
		return fmt.Sprintf("dict(seg%d,%q,prefix=%q)", o.Seg, o.Field, o.Prefix)
	case ropVisit:
		return fmt.Sprintf("visit(seg%d,doc=%d,stop=%d,nest=%d/%d,yield=%d)", o.Seg, o.Doc, o.Stop, o.Nest, o.Doc2, o.YieldK)
	case ropDocID:
		return fmt.Sprintf("docid(seg%d,%d)", o.Seg, o.Doc)
	case ropDocNumbers:
		return fmt.Sprintf("docnumbers(seg%d,%q)", o.Seg, o.IDs)
	case ropDV:
		return fmt.Sprintf("docvalues(seg%d,docs=%v,fields=%q)", o.Seg, o.Docs, o.Fields)
	case ropThes:
		return fmt.Sprintf("thesaurus(seg%d,%q,%q,except=%v)", o.Seg, o.Field, o.Term, o.Except)
	case ropMerge:
		return fmt.Sprintf("merge(segs=%v,drops=%v)", o.Segs, o.Drops)
	}
	return "?"
}

// parallelReadBurst is, like C20's release burst, a place where the schedule is
// not the simulator's: in the race build (GOMAXPROCS 8) several goroutines that
// really run in parallel make the same first-touch reads on a COLD instance of a
// shared segment - dictionary loads, term queries, id lookups, stored-field
// visits - a few dozen times. The cooperative scheduler only switches at yield
// points; what happens inside a critical section that has lost its lock has
// none. The oracle is C11's own and holds for every schedule: every call
// returns what it returns alone (answers taken from the warm instance before),
// and the race detector and the runtime (unlock of an unlocked mutex, concurrent
// map access) stay silent. A failure replays with the probability of the
// interleaving only.
func (w *World) parallelReadBurst(shared []*SegH, segs []segment.Segment) {
	r, c := w.r, w.r.ch
	var ops []rop
	for len(ops) < 6 {
		o := genRop(c, w, shared, r)
		if o.Kind == ropMerge || o.Kind == ropDV {
			continue
		}
		o.YieldK = 0
		ops = append(ops, o)
	}
	solo := &readerEnv{xopts: &w.XOpts}
	want := make([]string, len(ops))
	for i := range ops {
		want[i] = execRop(solo, &ops[i], segs)
	}
	saved := zap.VerifYield
	zap.VerifYield = nil
	defer func() { zap.VerifYield = saved }()
	const rounds = 40
	const readers = 6
	for round := 0; round < rounds; round++ {
		cold := make([]segment.Segment, len(shared))
		for i, h := range shared {
			cold[i] = w.twinOf(h)
		}
		start := make(chan struct{})
		got := make([][]string, readers)
		var wg sync.WaitGroup
		for g := 0; g < readers; g++ {
			wg.Add(1)
			go func(g int) {
				defer wg.Done()
				defer func() {
					if rec := recover(); rec != nil {
						got[g] = append(got[g], fmt.Sprintf("PANIC %v", rec))
					}
				}()
				env := &readerEnv{xopts: &w.XOpts}
				<-start
				for i := range ops {
					k := (i + g) % len(ops)
					o := ops[k]
					got[g] = append(got[g], fmt.Sprintf("%d=%s", k, execRop(env, &o, cold)))
				}
			}(g)
		}
		close(start)
		wg.Wait()
		for g := range got {
			for i, s := range got[g] {
				k := (i + g) % len(ops)
				if s != fmt.Sprintf("%d=%s", k, want[k]) {
					r.fail("C11.solo-answer", "parallel readers", "%d readers in parallel on a freshly opened instance (round %d): reader %d got %s for %s, alone the call returns %s", readers, round, g, short(s), ropString(&ops[k]), short(want[k]))
				}
			}
		}
		for _, s := range cold {
			s.Close()
		}
	}
	r.countN("probe.readers.parallel-burst-rounds", rounds)
}
