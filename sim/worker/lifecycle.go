package main

// lifecycle driver: a store of live segments driven through seeded build /
// persist+open / merge operations (chains of merges, mixed provenance, chunk
// modes changed between operations, aborted merges interleaved). Decides C05,
// C06, C13, C15 with the Merged relation; the fault-free build/persist/open
// path decides C04.

import (
	"bytes"
	"fmt"
	"os"
	"strings"

	index "github.com/blevesearch/bleve_index_api"

	"github.com/RoaringBitmap/roaring/v2"
	segment "github.com/blevesearch/scorch_segment_api/v2"
	zap "github.com/blevesearch/zapx/v16"
)

func init() {
	drivers["C05"] = func(r *RunCtx) {
		lifecycle(r, MergeParts{Maps: true, Stored: true}, r.ch.Choose(3, "cfg.syn") == 0, false)
	}
	drivers["C06"] = func(r *RunCtx) {
		lifecycle(r, MergeParts{Postings: true, DocValues: true}, r.ch.Choose(4, "cfg.syn") == 0, false)
	}
	drivers["C13"] = func(r *RunCtx) { lifecycle(r, MergeParts{Thesauri: true}, true, false) }
	drivers["C15"] = func(r *RunCtx) {
		if !vectorsBuild {
			r.fail("harness", "C15", "C15 needs the vectors build")
		}
		lifecycle(r, MergeParts{Vectors: true}, r.ch.Choose(4, "cfg.syn") == 0, true)
	}
	drivers["C04"] = roundtrip
}

type statsReporter struct {
	n       int
	bytes   uint64
	cb      func(n int)
	cbBytes func(total uint64)
}

func (s *statsReporter) ReportBytesWritten(b uint64) {
	s.n++
	s.bytes += b
	if s.cb != nil {
		s.cb(s.n)
	}
	if s.cbBytes != nil {
		s.cbBytes(s.bytes)
	}
}

func sharesRoot(ins []*SegH, cand *SegH) bool {
	for _, in := range ins {
		for k := range cand.Roots {
			if in.Roots[k] {
				return true
			}
		}
	}
	return false
}

func segFieldsSame(ins []*SegH) bool {
	for _, h := range ins[1:] {
		if !eqStr(h.Canon.Fields, ins[0].Canon.Fields) {
			return false
		}
	}
	return true
}

func count1HitCandidates(cn *Canon) int {
	n := 0
	for f, terms := range cn.Terms {
		if f == "_id" {
			continue
		}
		for _, t := range terms {
			if len(t.Hits) == 1 && t.Hits[0].Freq == 1 && len(t.Hits[0].Locs) == 0 {
				n++
			}
		}
	}
	return n
}

func dropsString(b *roaring.Bitmap) string {
	if b == nil {
		return "nil"
	}
	return fmt.Sprint(b.ToArray())
}

// mergeOnce merges the given inputs into a new file and checks the relation.
func (w *World) mergeOnce(ins []*SegH, drops []*roaring.Bitmap, parts MergeParts) *SegH {
	r := w.r
	segs := make([]segment.Segment, len(ins))
	names := make([]string, len(ins))
	depth := 0
	for i, h := range ins {
		segs[i] = h.Seg
		names[i] = fmt.Sprintf("%s(%s,n=%d,drop=%s)", h.Name, h.Kind, h.Canon.Count, dropsString(drops[i]))
		if h.Depth > depth {
			depth = h.Depth
		}
	}
	p := r.path("merge")
	sr := &statsReporter{}
	mode := zap.DefaultChunkMode
	maps, size, err := plugin.Merge(segs, drops, p, nil, sr)
	r.ev("merge %s -> err=%v", strings.Join(names, " + "), err != nil) // sizes are not logged: they vary with zapx's map-ordered section layout
	if err != nil {
		if w.Cfg.BadSyn && strings.Contains(err.Error(), "term length is 0") {
			// an input holds a thesaurus that cannot be loaded (zero-length synonym):
			// the merge has to read it and fails the same way, leaving no file
			bad := false
			for _, h := range ins {
				for _, t := range h.Canon.Thes {
					if t.Err != "" {
						bad = true
					}
				}
			}
			if bad {
				if fileExists(p) {
					r.fail("C17.file-left-behind", "Merge", "Merge failed (%v) but left its output behind", err)
				}
				r.count("probe.merge.unloadable-thesaurus-input")
				return nil
			}
		}
		r.fail("merge-error", "Merge", "Merge failed without any fault injected (%s): %v", strings.Join(names, " + "), err)
	}
	w.lastK = sr.n
	total := w.checkMaps(ins, drops, maps)
	st, err := os.Stat(p)
	if err != nil {
		r.fail("C05.size", "Merge", "Merge succeeded but the file is missing: %v", err)
	}
	if parts.Maps && uint64(st.Size()) != size {
		r.fail("C05.size", "Merge", "Merge reported size %d, file has %d bytes", size, st.Size())
	}
	out, err := plugin.Open(p)
	if err != nil {
		r.fail("open-error", "Open(merged)", "Open of a merged file failed: %v", err)
	}
	w.nseg++
	h := &SegH{Name: fmt.Sprintf("s%d", w.nseg), Seg: out, Kind: "merged", Path: p, Depth: depth + 1, Mode: mode, Size: size, Roots: map[int]bool{}}
	for _, in := range ins {
		for k := range in.Roots {
			h.Roots[k] = true
		}
	}
	h.Canon = w.extract(out, "merged segment "+h.Name)
	w.checkMerged(out, h.Canon, ins, drops, maps, total, parts)
	// reach statistics
	r.count("op.merge")
	same := segFieldsSame(ins)
	for i := range ins {
		if same && (drops[i] == nil || drops[i].IsEmpty()) {
			r.count("probe.stored.bytecopy")
		} else {
			r.count("probe.stored.reencode")
		}
		if ins[i].Depth >= 1 {
			r.countN("probe.1hit.remerged", count1HitCandidates(ins[i].Canon))
		}
		if ins[i].Canon.Count == 0 {
			r.count("probe.merge.emptyinput")
		}
	}
	if same {
		r.count("probe.postings.bytecopy")
	} else {
		r.count("probe.postings.reencode")
	}
	if total == 0 {
		r.count("probe.merge.nosurvivors")
	}
	if h.Depth >= 2 {
		r.count("probe.merge.chain>=2")
	}
	if h.Depth >= 3 {
		r.count("probe.merge.chain>=3")
	}
	if total > 0 {
		r.NonTrivial = true
	}
	return h
}

func lifecycle(r *RunCtx, parts MergeParts, wantSyn, wantVec bool) {
	c := r.ch
	w := newWorld(r, wantSyn, wantVec)
	defer w.CloseAll()
	if parts.Postings {
		w.LargeDen = 25
	}
	abortable := c.Choose(3, "cfg.aborts") == 0
	if parts.Thesauri && !abortable {
		abortable = c.Bool("cfg.aborts.syn")
	}

	build := func() {
		var spec *BatchSpec
		if wantVec && c.Prob(1, 30, "life.vecboundary") {
			// exactly 999 / 1000 / 1001 / 1003 / 2000 vectors in one field: the
			// boundaries of the index-class decision (flat below 1000, clustered
			// from 1000) and of any batching by the thousand
			n := []int{999, 1000, 1001, 1003, 2000}[c.Choose(5, "life.vecboundaryN")]
			spec = genVectorBoundaryBatch(c, w.Cfg, n)
			r.count("probe.vec.boundary-batch")
		} else {
			spec = genBatch(c, w.Cfg, w.genBatchSize(), w.Cfg.IDSpace)
		}
		h := w.Build(spec, nil)
		h.Canon = w.extract(h.Seg, "built segment "+h.Name)
		r.ev("build %s: %s", h.Name, spec.summary())
		if c.Bool("build.persist") {
			h2 := w.PersistOpen(h)
			h.Seg.Close()
			h2.Canon = w.extract(h2.Seg, "opened segment "+h2.Name)
			r.ev("persistopen %s -> %s", h.Name, h2.Name)
			h = h2
		}
		w.Add(h)
	}
	build()
	if c.Choose(4, "life.second") != 0 {
		build()
	}
	nops := 2 + c.Choose(8, "life.nops")
	for op := 0; op < nops; op++ {
		switch k := c.Choose(10, "life.op"); {
		case k < 3:
			build()
		case k == 3:
			zap.DefaultChunkMode = chunkModes[c.Choose(len(chunkModes), "life.chunkmode")]
			r.ev("chunkmode %d", zap.DefaultChunkMode)
		default:
			if len(w.Segs) == 0 {
				build()
				continue
			}
			n := 1 + c.Skewed(4, "merge.n")
			if n > len(w.Segs) {
				n = len(w.Segs)
			}
			// choose n distinct segments in a seeded order
			idx := make([]int, len(w.Segs))
			for i := range idx {
				idx[i] = i
			}
			var ins []*SegH
			for i := 0; i < n; i++ {
				j := i + c.Choose(len(idx)-i, "merge.pick")
				idx[i], idx[j] = idx[j], idx[i]
				cand := w.Segs[idx[i]]
				// vector ids are unique per build; a segment and its own merge
				// output carry the same ids and never meet in one merge of a real
				// index (the output replaces its inputs), so vector worlds only
				// merge lineage-disjoint inputs
				if wantVec && sharesRoot(ins, cand) {
					continue
				}
				ins = append(ins, cand)
			}
			n = len(ins)
			drops := make([]*roaring.Bitmap, n)
			for i, h := range ins {
				var kind string
				drops[i], kind = genDrops(c, h.Canon.Count)
				r.count("drops." + kind)
			}
			if abortable && c.Choose(4, "merge.abortfirst") == 0 {
				w.abortedMerge(ins, drops)
				if parts.Thesauri {
					// thesauri are a small part of a merge's writes: a few more cancelled
					// attempts at other instants, so that some land inside that part
					for k := c.Choose(4, "merge.abortmore"); k > 0; k-- {
						w.abortedMerge(ins, drops)
					}
				}
			}
			h := w.mergeOnce(ins, drops, parts)
			w.Add(h)
			// sometimes retire the inputs, as a real compaction does
			if c.Bool("merge.retire") {
				keep := w.Segs[:0]
				for _, s := range w.Segs {
					retired := false
					for _, in := range ins {
						if s == in {
							retired = true
						}
					}
					if retired {
						s.Seg.Close()
						s.Seg = nil
					} else {
						keep = append(keep, s)
					}
				}
				w.Segs = keep
			}
		}
		for len(w.Segs) > 6 {
			w.Segs[0].Seg.Close()
			w.Segs[0].Seg = nil
			w.Segs = w.Segs[1:]
		}
	}
	r.Sample["ops"] = r.Events
}

// abortedMerge runs a merge of the same inputs that is cancelled (pre-closed
// channel or cancelled from the k-th write callback). Its own outcome is the
// subject of C18; here only the history matters: the real merge that follows
// must still be correct.
func (w *World) abortedMerge(ins []*SegH, drops []*roaring.Bitmap) {
	r := w.r
	// the cancelled merge is usually not the same merge as the one that follows:
	// other order of the inputs, other deletions (what it leaves behind in pooled
	// scratch objects then differs from what the next merge would compute itself)
	if r.ch.Bool("abort.reorder") {
		rev := make([]*SegH, len(ins))
		rd := make([]*roaring.Bitmap, len(ins))
		for i := range ins {
			rev[len(ins)-1-i] = ins[i]
			rd[len(ins)-1-i] = drops[i]
		}
		ins, drops = rev, rd
	}
	if len(ins) > 1 && r.ch.Bool("abort.subset") {
		// ... or only some of the inputs
		cut := 1 + r.ch.Choose(len(ins)-1, "abort.subsetn")
		if r.ch.Bool("abort.subsettail") {
			ins, drops = ins[cut:], drops[cut:]
		} else {
			ins, drops = ins[:cut], drops[:cut]
		}
	}
	if r.ch.Bool("abort.nodrops") {
		drops = make([]*roaring.Bitmap, len(ins))
	}
	segs := make([]segment.Segment, len(ins))
	for i, h := range ins {
		segs[i] = h.Seg
	}
	p := r.path("aborted")
	ch := make(chan struct{})
	k := r.ch.Choose(30, "abort.k")
	if r.ch.Bool("abort.late") {
		// the stored-field section alone makes dozens of writes: reach the sections
		// written after it (postings, thesauri, vectors) as well
		k = r.ch.Choose(600, "abort.latek")
	}
	if w.lastK > 0 && r.ch.Bool("abort.within") {
		// somewhere within the number of writes the last complete merge made
		k = r.ch.Choose(w.lastK+1, "abort.withink")
	}
	closed := false
	sr := &statsReporter{cb: func(n int) {
		if n >= k && !closed {
			closed = true
			close(ch)
		}
	}}
	if k == 0 {
		closed = true
		close(ch)
	}
	_, _, err := plugin.Merge(segs, drops, p, ch, sr)
	r.evv(fmt.Sprintf("aborted-merge k=%d", k), "aborted-merge k=%d err=%v", k, err != nil) // outcome depends on the map-ordered section loop
	if err != nil {
		r.count("fault.merge.cancelled")
	}
	os.Remove(p)
}

// ---------------------------------------------------------------------------
// C04: persist / re-open round trip, the fault-free configuration of the
// storage simulation.

func roundtrip(r *RunCtx) {
	c := r.ch
	w := newWorld(r, c.Choose(3, "cfg.syn") == 0, vectorsBuild && c.Bool("cfg.vec"))
	defer w.CloseAll()
	n := 1 + c.Choose(4, "rt.n")
	similar := c.Prob(1, 4, "rt.similar")
	if similar {
		// a row of builds of about the same size (what a steady indexing load looks
		// like to the pooled builder and its size estimates)
		n = 3 + c.Choose(4, "rt.similarn")
	}
	nd := w.genBatchSize()
	images := map[*SegH][]byte{}
	for i := 0; i < n; i++ {
		if i > 0 && c.Bool("rt.chunkmode") {
			zap.DefaultChunkMode = chunkModes[c.Choose(len(chunkModes), "rt.mode")]
		}
		if !similar {
			nd = w.genBatchSize()
		}
		spec := genBatch(c, w.Cfg, nd, w.Cfg.IDSpace)
		h := w.Build(spec, nil)
		w.Add(h)
		h.Canon = w.extract(h.Seg, "built segment "+h.Name)
		images[h] = w.roundtripOne(h)
		r.ev("roundtrip %s: %s mode=%d", h.Name, spec.summary(), h.Mode)
		if len(spec.Docs) > 0 {
			r.NonTrivial = true
		}
	}
	// the in-memory segments are still what they were after the later builds: a
	// Persist or a query may come at any time after the build that made them
	for _, h := range w.Segs {
		sb, ok := h.Seg.(*zap.SegmentBase)
		if !ok || images[h] == nil {
			continue
		}
		var again bytes.Buffer
		if _, err := sb.WriteTo(&again); err != nil {
			r.fail("C04.writeto", "WriteTo", "WriteTo of %s after the later builds failed: %v", h.Name, err)
		}
		if !bytes.Equal(again.Bytes(), images[h]) {
			r.fail("C04.bytes", "WriteTo", "in-memory segment %s: WriteTo now emits other bytes (%d) than right after its build (%d); %d builds were made since", h.Name, again.Len(), len(images[h]), n)
		}
		cn := w.extract(h.Seg, "in-memory segment "+h.Name+" after the later builds")
		if d := Same(h.Canon, cn, cmpAll); d != "" {
			r.fail("C04.same", "later", "in-memory segment %s right after its build vs after the later builds: %s", h.Name, d)
		}
		r.count("probe.roundtrip.rechecked-after-later-builds")
	}
	r.Sample["ops"] = r.Events
}

// roundtripOne returns the bytes WriteTo emitted.
func (w *World) roundtripOne(h *SegH) []byte {
	r := w.r
	sb, isBase := h.Seg.(*zap.SegmentBase)
	if !isBase {
		r.fail("harness", "roundtrip", "built segment is %T", h.Seg)
	}
	var buf bytes.Buffer
	nw, err := sb.WriteTo(&buf)
	if err != nil {
		r.fail("C04.writeto", "WriteTo", "WriteTo failed without a fault: %v", err)
	}
	if nw != int64(buf.Len()) {
		r.fail("C04.writeto", "WriteTo", "WriteTo returned %d, wrote %d bytes", nw, buf.Len())
	}
	p := r.path("rt")
	if r.ch.Prob(1, 6, "rt.stale") && buf.Len() > 1 {
		// history: the path holds an earlier attempt or an unrelated file, shorter
		// or longer than the new output (a truncated image, the complete image
		// followed by more bytes, or junk); persisting over it must give the same file
		k := r.ch.Choose(2*buf.Len(), "rt.stalelen")
		stale := make([]byte, k)
		copy(stale, buf.Bytes())
		if r.ch.Bool("rt.stalejunk") {
			for i := range stale {
				stale[i] = byte(i * 131)
			}
		}
		if err := os.WriteFile(p, stale, 0o600); err != nil {
			r.fail("harness", "roundtrip", "%v", err)
		}
		if k >= buf.Len() {
			r.count("probe.persist.over-longer-file")
		} else {
			r.count("probe.persist.over-earlier-shorter-attempt")
		}
	}
	if err := sb.Persist(p); err != nil {
		r.fail("C04.persist", "Persist", "Persist failed without a fault: %v", err)
	}
	data, err := os.ReadFile(p)
	if err != nil {
		r.fail("C04.persist", "Persist", "Persist succeeded but the file cannot be read: %v", err)
	}
	if !bytes.Equal(data, buf.Bytes()) {
		r.fail("C04.bytes", "Persist", "Persist wrote %d bytes, WriteTo %d bytes; contents differ", len(data), buf.Len())
	}
	w.checkFooter("C04", data, h.Canon.Count, h.Mode)
	f, crc, _ := parseFooter(data)
	opened, err := plugin.Open(p)
	if err != nil {
		r.fail("C04.open", "Open", "Open of the persisted file failed: %v", err)
	}
	defer func() {
		opened.Close()
	}()
	ps := opened.(*zap.Segment)
	if ps.NumDocs() != h.Canon.Count || ps.ChunkMode() != h.Mode || ps.Version() != 16 || ps.CRC() != crc || ps.CRC() != f.CRC {
		r.fail("C04.accessors", "Open", "opened segment reports NumDocs=%d ChunkMode=%d Version=%d CRC=%08x; file has docs=%d mode=%d crc=%08x",
			ps.NumDocs(), ps.ChunkMode(), ps.Version(), ps.CRC(), h.Canon.Count, h.Mode, crc)
	}
	oc := w.extract(opened, "re-opened segment")
	if s := Same(h.Canon, oc, cmpAll); s != "" {
		r.fail("C04.same", "Open", "in-memory vs re-opened: %s", s)
	}
	r.count("op.roundtrip")
	return append([]byte(nil), buf.Bytes()...)
}

// genVectorBoundaryBatch: n documents, each with exactly one vector in the
// first vector field and nothing else but _id.
func genVectorBoundaryBatch(c *Chooser, g *GenCfg, n int) *BatchSpec {
	p := &g.VecFields[0]
	b := &BatchSpec{}
	for i := 0; i < n; i++ {
		id := idString(100000 + i)
		d := DocSpec{ID: id}
		d.Fields = append(d.Fields, FieldSpec{Name: "_id", Kind: 't', Opts: index.IndexField | index.StoreField, Typ: 't',
			Value: []byte(id), Len: 1, Toks: []TokSpec{{Term: id, Freq: 1}}})
		// all vectors distinct (zapx indexes a vector once per segment however
		// many documents carry it): the field has exactly n vectors
		vec := make([]float32, p.Dims)
		for j := range vec {
			vec[j] = float32((i*(j+3))%11) - 5
		}
		vec[0] = float32(i)
		d.Fields = append(d.Fields, FieldSpec{Name: p.Name, Kind: 'v', Opts: p.Opts, Typ: 'v', Vec: vec, Dims: p.Dims, Sim: p.Sim, Opt: p.Opt})
		b.Docs = append(b.Docs, d)
	}
	return b
}
