package main

// refs driver (C20): balanced AddRef / DecRef / Close histories on an opened
// segment, sequential (a read sweep between any two reference operations) and
// by concurrent holder tasks interleaved with readers. Oracles: reference
// counter model vs the hook-read counter, every read succeeds with the
// expected answer (a read through an unmapped segment faults, which
// SetPanicOnFault turns into a reported violation), /proc/self/maps and
// /proc/self/fd before and after the last release, every release returns nil.

import (
	"encoding/binary"
	"fmt"
	"os"
	"path/filepath"
	"strings"
	"sync"

	"github.com/RoaringBitmap/roaring/v2"
	segment "github.com/blevesearch/scorch_segment_api/v2"
	zap "github.com/blevesearch/zapx/v16"
)

func init() {
	drivers["C20"] = refHistories
}

func mappedAndOpen(path string) (mapped bool, fds int) {
	b, _ := os.ReadFile("/proc/self/maps")
	mapped = strings.Contains(string(b), path)
	ents, _ := os.ReadDir("/proc/self/fd")
	for _, e := range ents {
		if l, err := os.Readlink(filepath.Join("/proc/self/fd", e.Name())); err == nil && l == path {
			fds++
		}
	}
	return
}

// readSweep performs a few seeded reads and compares them with the canonical
// answers taken when the segment was opened.
func readSweep(r *RunCtx, seg segment.Segment, cn *Canon, ops []rop, want []string, env *readerEnv, who string) {
	segs := []segment.Segment{seg}
	for i := range ops {
		got := execRop(env, &ops[i], segs)
		if got != want[i] {
			r.fail("C20.read", ropName(ops[i].Kind), "%s: read %s while a reference is held returned %s, expected %s", who, ropString(&ops[i]), short(got), short(want[i]))
		}
	}
}

func refHistories(r *RunCtx) {
	c := r.ch
	w := newWorldBadSyn(r, c.Choose(3, "cfg.syn") == 0, vectorsBuild)
	defer w.CloseAll()
	engineQuiesce()
	live0 := engineLive()
	spec := genBatch(c, w.Cfg, 1+c.Choose(20, "ref.ndocs"), w.Cfg.IDSpace)
	mem := w.Build(spec, nil)
	mem.Canon = w.extract(mem.Seg, "built segment")
	w.Add(mem)
	// vectors build: the caches a segment gives up with its last reference include
	// the native vector indexes it loaded for searches
	checkEngine := func(where string) {
		if !vectorsBuild {
			return
		}
		engineQuiesce()
		if l := engineLive(); l > live0 {
			r.fail("C20.leak", "vectorIndexCache", "%s: %d native vector indexes of the segment's cache are still alive (before the segment existed: %d)", where, l, live0)
		}
		r.count("probe.ref.engine-indexes-checked-after-release")
	}

	if c.Prob(1, 8, "ref.inmemory") {
		// closing an in-memory segment is harmless
		sb := mem.Seg
		sb.AddRef()
		if err := sb.DecRef(); err != nil {
			r.fail("C20.release-error", "SegmentBase.DecRef", "DecRef on an in-memory segment: %v", err)
		}
		if err := sb.Close(); err != nil {
			r.fail("C20.release-error", "SegmentBase.Close", "Close on an in-memory segment: %v", err)
		}
		mem.Seg = nil
		checkEngine("after closing the in-memory segment")
		r.ev("in-memory close")
		r.count("op.memclose")
		return
	}

	if c.Prob(1, 4, "ref.damaged") {
		w.openDamagedFiles(mem)
	}
	if r.tsan && c.Prob(1, 8, "ref.burst") {
		w.parallelReleaseBurst(mem, 2+c.Choose(3, "ref.burst.holders"))
	}
	opened := w.PersistOpen(mem)
	ps, ok := opened.Seg.(*zap.Segment)
	if !ok {
		r.fail("harness", "Open", "opened segment is %T", opened.Seg)
	}
	path := opened.Path
	// vectors build: make the opened segment load (and cache) its vector indexes
	if n, err := loadVectorCaches(w, opened.Seg); err != nil {
		r.fail("C20.read", "InterpretVectorIndex", "vector search on the opened segment: %v", err)
	} else {
		r.countN("probe.ref.vector-index-cached", n)
	}
	released := false
	defer func() {
		if !released {
			// unwind after a violation: nothing to clean, the process reports and moves on
			opened.Seg = nil
		}
	}()
	opened.Seg = nil // the driver releases it itself
	cn := mem.Canon

	// pre-drawn read ops and their expected answers (taken solo from the in-memory twin)
	shared := []*SegH{{Name: "seg", Canon: cn}}
	nreads := 2 + c.Choose(4, "ref.nreads")
	var reads []rop
	merges := 0
	for len(reads) < nreads {
		o := genRop(c, w, shared, r)
		if o.Kind == ropMerge {
			// a successful merge with the held segment as its input is one more reader:
			// it must leave the segment as readable as it found it (at most one per
			// history, the sweeps repeat it after every reference operation)
			if merges > 0 {
				continue
			}
			merges++
			r.count("probe.ref.merge-of-held-segment")
		}
		o.YieldK = 0
		reads = append(reads, o)
	}
	soloEnv := &readerEnv{xopts: &w.XOpts}
	want := make([]string, len(reads))
	for i := range reads {
		want[i] = execRop(soloEnv, &reads[i], []segment.Segment{ps}) // solo, right after Open, before any reference operation
	}

	model := int64(1)
	checkCounter := func(where string) {
		if got := zap.VerifSegmentRefs(ps); got != model {
			r.fail("C20.counter", "Segment.refs", "%s: segment holds %d references, the history says %d", where, got, model)
		}
	}
	checkLive := func(where string) {
		if m, fds := mappedAndOpen(path); !m || fds != 1 {
			r.fail("C20.early-release", "closeActual", "%s: %d references are still held but mapped=%v open descriptors=%d", where, model, m, fds)
		}
	}
	release := func(kind string, who string) {
		var err error
		if kind == "Close" {
			err = ps.Close()
		} else {
			err = ps.DecRef()
		}
		if err != nil {
			r.fail("C20.release-error", "Segment."+kind, "%s: %s returned %v (references before the call: %d)", who, kind, err, model)
		}
	}

	concurrent := c.Bool("ref.concurrent")
	if !concurrent {
		nops := 2 + c.Choose(12, "ref.nops")
		var hist []string
		for i := 0; i < nops; i++ {
			readSweep(r, ps, cn, reads, want, soloEnv, fmt.Sprintf("after [%s]", strings.Join(hist, " ")))
			checkLive(fmt.Sprintf("after [%s]", strings.Join(hist, " ")))
			if c.Prob(1, 6, "ref.failedmerge") {
				// a merge that reads the segment and is cancelled or cannot create its
				// output: it must not keep (or drop) a reference of its own
				mp := r.path("refmerge")
				var merr error
				if c.Bool("ref.failedmerge.kind") {
					ch := make(chan struct{})
					close(ch)
					_, _, merr = plugin.Merge([]segment.Segment{ps}, []*roaring.Bitmap{nil}, mp, ch, nil)
				} else {
					_, _, merr = plugin.Merge([]segment.Segment{ps}, []*roaring.Bitmap{nil}, filepath.Join(mp+".missing", "x.zap"), nil, nil)
				}
				os.Remove(mp)
				hist = append(hist, fmt.Sprintf("FailedMerge(err=%v)", merr != nil))
				r.count("probe.ref.failed-merge-of-held-segment")
				checkCounter(fmt.Sprintf("after [%s]", strings.Join(hist, " ")))
				continue
			}
			if model > 1 && c.Bool("ref.dec") {
				k := "DecRef"
				if c.Bool("ref.close") {
					k = "Close"
				}
				release(k, "sequential history")
				model--
				hist = append(hist, k)
			} else {
				ps.AddRef()
				model++
				hist = append(hist, "AddRef")
			}
			checkCounter(fmt.Sprintf("after [%s]", strings.Join(hist, " ")))
		}
		for model > 0 {
			readSweep(r, ps, cn, reads, want, soloEnv, fmt.Sprintf("after [%s]", strings.Join(hist, " ")))
			checkLive(fmt.Sprintf("after [%s]", strings.Join(hist, " ")))
			k := "DecRef"
			if c.Bool("ref.close2") {
				k = "Close"
			}
			release(k, "sequential history")
			model--
			hist = append(hist, k)
		}
		released = true
		r.ev("sequential [%s]", strings.Join(hist, " "))
		r.countN("op.refops", len(hist))
		if len(hist) >= 3 {
			r.NonTrivial = true
		}
		r.Sample["history"] = hist
	} else {
		// every task starts owning one reference (taken before the tasks start)
		nt := 2 + c.Choose(4, "ref.ntasks")
		type plan struct{ steps []string }
		plans := make([]plan, nt)
		for t := range plans {
			extra := c.Choose(3, "ref.extra")
			held := 1
			n := 1 + c.Choose(5, "ref.steps")
			for k := 0; k < n; k++ {
				switch c.Choose(4, "ref.step") {
				case 0:
					if extra > 0 {
						plans[t].steps = append(plans[t].steps, "AddRef")
						held++
						extra--
						continue
					}
					fallthrough
				case 1:
					if held > 1 {
						plans[t].steps = append(plans[t].steps, "DecRef")
						held--
						continue
					}
					fallthrough
				default:
					plans[t].steps = append(plans[t].steps, "read")
				}
			}
			for ; held > 0; held-- {
				if t == 0 && held == 1 {
					plans[t].steps = append(plans[t].steps, "Close")
				} else {
					plans[t].steps = append(plans[t].steps, "DecRef")
				}
			}
		}
		for t := 1; t < nt; t++ {
			ps.AddRef()
			model++
		}
		checkCounter("after handing one reference to every task")
		sim := newSim(c, r.tsan, 3000)
		zap.VerifYield = func(site string) { sim.Yield("zapx:" + site) }
		viols := make([]string, nt)
		errs := make([]string, nt)
		for t := 0; t < nt; t++ {
			t := t
			sim.Spawn(fmt.Sprintf("holder%d", t), func(tk *Task) {
				env := &readerEnv{xopts: &w.XOpts, yield: sim.Yield, viol: &viols[t]}
				segs := []segment.Segment{ps}
				// every holder merges to a path of its own
				reads := append([]rop(nil), reads...)
				for i := range reads {
					if reads[i].Kind == ropMerge {
						reads[i].Path = fmt.Sprintf("%s.holder%d", reads[i].Path, t)
					}
				}
				for _, st := range plans[t].steps {
					switch st {
					case "AddRef":
						ps.AddRef()
					case "DecRef":
						if err := ps.DecRef(); err != nil && errs[t] == "" {
							errs[t] = fmt.Sprintf("DecRef returned %v", err)
						}
					case "Close":
						if err := ps.Close(); err != nil && errs[t] == "" {
							errs[t] = fmt.Sprintf("Close returned %v", err)
						}
					default:
						for i := range reads {
							got := execRop(env, &reads[i], segs)
							if got != want[i] && errs[t] == "" {
								errs[t] = fmt.Sprintf("read %s while holding a reference returned %s, expected %s", ropString(&reads[i]), short(got), short(want[i]))
							}
						}
					}
					sim.Yield("betweenSteps")
				}
			})
		}
		sim.Run()
		zap.VerifYield = nil
		released = true
		r.countN("sim.steps", sim.steps)
		r.countN("probe.sched.yield-under-lock-recoveries", sim.lockStalls)
		r.countN("sim.switches", sim.switches)
		for site, n := range sim.siteCounts {
			r.countN("probe.yield."+site, n)
		}
		r.sched(sim)
		total := 0
		for t, tk := range sim.tasks {
			if tk.panicV != nil {
				r.fail("C20.fault", panicSite(tk.panicSt), "holder %d faulted while holding a reference: %v\n%s", t, tk.panicV, tk.panicSt)
			}
			if errs[t] != "" {
				oracle := "C20.read"
				if strings.HasPrefix(errs[t], "DecRef") || strings.HasPrefix(errs[t], "Close") {
					oracle = "C20.release-error"
				}
				r.fail(oracle, "holder", "holder %d (plan %v): %s", t, plans[t].steps, errs[t])
			}
			total += len(plans[t].steps)
		}
		model = 0
		r.ev("concurrent %d holders, %d steps, schedule %s", nt, total, sim.schedTrace)
		r.countN("op.refops", total)
		if sim.switches > nt {
			r.NonTrivial = true
		}
		r.Sample["plans"] = fmt.Sprint(plans)
		r.Sample["schedule_prefix"] = string(sim.schedTrace)
	}
	// after the last release: unmapped and closed, exactly once
	if m, fds := mappedAndOpen(path); m || fds != 0 {
		r.fail("C20.leak", "closeActual", "after the last reference was dropped: mapped=%v open descriptors=%d", m, fds)
	}
	if got := zap.VerifSegmentRefs(ps); got != 0 {
		r.fail("C20.counter", "Segment.refs", "after the last release the segment holds %d references", got)
	}
	if mem.Seg != nil {
		// (the in-memory twin has a cache of its own)
		mem.Seg.Close()
		mem.Seg = nil
	}
	checkEngine("after the last reference was dropped")
	r.Sample["ops"] = r.Events
}

// parallelReleaseBurst is the one place where the schedule is NOT decided by the
// simulator: the last references of a freshly opened segment are dropped by
// goroutines that really run in parallel (race-detector build, GOMAXPROCS 8),
// a few hundred times. The cooperative scheduler can only switch tasks at yield
// points; a lost update between two atomic operations inside DecRef has none.
// The oracle is the same as everywhere in C20 and holds for every schedule:
// no release call fails, and afterwards the file is unmapped, its descriptor
// closed and the counter at 0. A failure here replays only with the probability
// of the interleaving (the supervisor retries), which is why this is a
// supplement to the seeded interleavings, not a replacement.
func (w *World) parallelReleaseBurst(mem *SegH, holders int) {
	r := w.r
	us, ok := mem.Seg.(segment.UnpersistedSegment)
	if !ok {
		return
	}
	path := r.path("burst")
	if err := us.Persist(path); err != nil {
		r.fail("persist-error", "Persist", "Persist failed without any fault injected: %v", err)
	}
	saved := zap.VerifYield
	zap.VerifYield = nil
	defer func() { zap.VerifYield = saved }()
	const rounds = 300
	for round := 0; round < rounds; round++ {
		seg, err := plugin.Open(path)
		if err != nil {
			r.fail("open-error", "Open", "Open of a persisted segment failed: %v", err)
		}
		ps := seg.(*zap.Segment)
		for h := 1; h < holders; h++ {
			ps.AddRef()
		}
		start := make(chan struct{})
		errs := make([]error, holders)
		var wg sync.WaitGroup
		for h := 0; h < holders; h++ {
			wg.Add(1)
			go func(h int) {
				defer wg.Done()
				<-start
				if h == 0 {
					errs[h] = ps.Close()
				} else {
					errs[h] = ps.DecRef()
				}
			}(h)
		}
		close(start)
		wg.Wait()
		for h, e := range errs {
			if e != nil {
				r.fail("C20.release-error", "parallel release", "%d holders dropping their last references in parallel (round %d): holder %d got %v", holders, round, h, e)
			}
		}
		if m, fds := mappedAndOpen(path); m || fds != 0 {
			r.fail("C20.leak", "parallel release", "%d holders dropped their last references in parallel (round %d): afterwards mapped=%v open descriptors=%d", holders, round, m, fds)
		}
		if got := zap.VerifSegmentRefs(ps); got != 0 {
			r.fail("C20.counter", "parallel release", "%d holders dropped their last references in parallel (round %d): the segment still counts %d references", holders, round, got)
		}
	}
	r.countN("probe.ref.parallel-release-rounds", rounds)
}

// legacyFileWithBadDocValues is a tiny file in the pre-sections (version 15)
// layout whose doc-value index entry is too short: Open maps it, parses footer
// and fields, and then fails with an ordinary error in the doc-value loader -
// the last of Open's failure paths.
func legacyFileWithBadDocValues() []byte {
	var mem []byte
	mem = append(mem, 0x00, 0x01, 'a')
	dvOff := uint64(len(mem))
	mem = append(mem, 0x00, 0x01)
	mem = append(mem, make([]byte, 16)...)
	fieldsIdx := uint64(len(mem))
	mem = binary.BigEndian.AppendUint64(mem, 0)
	mem = binary.BigEndian.AppendUint64(mem, 1)
	mem = binary.BigEndian.AppendUint64(mem, 0)
	mem = binary.BigEndian.AppendUint64(mem, fieldsIdx)
	mem = binary.BigEndian.AppendUint64(mem, dvOff)
	mem = binary.BigEndian.AppendUint32(mem, 1024)
	mem = binary.BigEndian.AppendUint32(mem, 15)
	mem = binary.BigEndian.AppendUint32(mem, 0)
	return mem
}

// openDamagedFiles: every failure path of Open must release the mapping and
// the descriptor it took (the reference Open created is the only one). Damaged
// variants of a real file and one hand-built legacy file are opened; only
// attempts in which Open returns normally are judged (a panic on corrupt input
// is a robustness matter outside this property).
func (w *World) openDamagedFiles(mem *SegH) {
	r := w.r
	good := r.path("good")
	if err := mem.Seg.(segment.UnpersistedSegment).Persist(good); err != nil {
		r.fail("persist-error", "Persist", "%v", err)
	}
	data, _ := os.ReadFile(good)
	variants := map[string][]byte{"empty": {}, "legacy-bad-docvalues": legacyFileWithBadDocValues()}
	// (Random damage - byte flips, a flipped version number, zeroed offsets - is
	// deliberately NOT used: Open does not verify the CRC, and garbage lengths
	// read back from such files make the loaders allocate without bound, a
	// robustness matter outside this property that would alarm on a tree where
	// the property holds.)
	_ = data
	for _, name := range sortedKeys(variants) {
		p := r.path("damaged")
		if err := os.WriteFile(p, variants[name], 0o600); err != nil {
			r.fail("harness", "openDamaged", "%v", err)
		}
		var err error
		var seg segment.Segment
		panicked := false
		func() {
			defer func() {
				if rec := recover(); rec != nil {
					panicked = true
				}
			}()
			seg, err = plugin.Open(p)
		}()
		switch {
		case panicked:
			r.count("probe.open.damaged-panicked")
			continue
		case err == nil:
			r.count("probe.open.damaged-accepted")
			func() {
				defer func() { recover() }()
				seg.Close()
			}()
		default:
			r.count("probe.open.damaged-rejected")
		}
		if m, fds := mappedAndOpen(p); err != nil && (m || fds != 0) {
			r.fail("C20.open-failure-leak", "Open", "Open of a damaged file (%s) returned %q but left it mapped=%v with %d open descriptors", name, err, m, fds)
		}
		r.ev("open damaged %s -> err=%v", name, err != nil)
	}
}
