package main

// Input generation: seeded batches of already-analysed documents. zapx has no
// analysis of its own; the harness supplies index.Document / index.Field
// implementations, which also serve as callback seams (yield and fault points
// inside ZapPlugin.New).

import (
	"fmt"
	"sort"
	"strconv"
	"strings"

	index "github.com/blevesearch/bleve_index_api"
)

type LocSpec struct {
	Field           string
	AP              []uint64
	Start, End, Pos int
}

type TokSpec struct {
	Term string
	Freq int
	Locs []LocSpec
}

type SynDef struct {
	Term string
	Syns []string
}

type FieldSpec struct {
	Name  string
	Kind  byte // 't' text, 's' synonym, 'v' vector, 'c' composite
	Opts  index.FieldIndexingOptions
	Typ   byte
	Value []byte
	AP    []uint64
	Len   int
	Toks  []TokSpec
	Syn   []SynDef
	Vec   []float32
	Dims  int
	Sim   string
	Opt   string
	Shape []byte // kind 'g': encoded geo shape (extra doc value)
}

type DocSpec struct {
	ID        string
	Fields    []FieldSpec
	Composite []FieldSpec
	IsSyn     bool
}

type BatchSpec struct {
	Docs []DocSpec
}

// fieldProfile fixes the indexing options of a field name for a whole world.
type fieldProfile struct {
	Name  string
	Kind  byte
	Opts  index.FieldIndexingOptions
	Vocab []string
	Dims  int
	Sim   string
	Opt   string
	Shape bool // documents may carry an encoded geo shape in this field
}

type GenCfg struct {
	Fields      []fieldProfile // ordinary text fields
	SynFields   []fieldProfile
	VecFields   []fieldProfile
	Composite   bool
	CompositeDV bool // the composite field is indexed with doc values
	FlipOpts    bool // single field instances deviate from the options of their field
	BadSyn      bool // zero-length synonyms are generated: such a thesaurus cannot be loaded
	Dense       bool // few fields, few terms, batches of 1000-2100 documents
	IDSpace     int
	MaxToks     int
	BigVals     bool
	IDDocVals   bool // the _id field is indexed with doc values (legal, unusual)
	// WideNums: positions, offsets, frequencies, field lengths and array positions
	// that need 2-3 varint bytes (>= 128, >= 16384)
	WideNums bool
	Many     bool // several hundred fields: batches stay tiny
}

var alphabet = []string{"a", "b", "c", "d", "e", "ab", "ba", "é", "日", "z", "zz", "aa", "m", "~", "0", "b\x00"}

func genTerm(c *Chooser, allowEmpty bool) string {
	if allowEmpty && c.Prob(1, 12, "term.empty") {
		return ""
	}
	n := 1 + c.Skewed(3, "term.len")
	if c.Prob(1, 80, "term.long") {
		// a term of several hundred bytes (longer than any fixed small buffer, and
		// with a length that needs two varint bytes)
		n = 60 + c.Choose(200, "term.longlen")
	}
	s := ""
	for i := 0; i < n; i++ {
		s += alphabet[c.Choose(len(alphabet), "term.sym")]
	}
	return s
}

func genVocab(c *Chooser, n int, allowEmpty bool) []string {
	seen := map[string]bool{}
	var v []string
	for tries := 0; len(v) < n && tries < n*4; tries++ {
		t := genTerm(c, allowEmpty)
		if !seen[t] {
			seen[t] = true
			v = append(v, t)
		}
	}
	sort.Strings(v)
	return v
}

var vocabSizes = []int{1, 2, 3, 5, 8, 20}

// genCfg draws the shape of a world: which fields exist and how they are indexed.
func genCfg(c *Chooser, wantSyn, wantVec bool) *GenCfg {
	g := &GenCfg{}
	nf := 1 + c.Choose(6, "cfg.nfields")
	many := c.Prob(1, 50, "cfg.manyfields")
	// "dense" worlds: one or two fields with one or two terms each and batches of
	// a thousand to two thousand documents, so that single postings lists and
	// doc-value columns cross the 1024 marks that chunking turns on - cheaply
	dense := !many && c.Prob(1, 25, "cfg.dense")
	if dense {
		nf = 1 + c.Choose(2, "cfg.denseN")
	}
	if many {
		// more than 255 field ids in one segment, and one field name longer than
		// 127 bytes (both cross a varint / byte boundary of the field table)
		nf = 130 + c.Choose(170, "cfg.manyN")
	}
	for i := 0; i < nf; i++ {
		p := fieldProfile{Name: "f" + strconv.Itoa(i), Kind: 't'}
		if many && i == 7 {
			p.Name = "f7_" + strings.Repeat("long", 40)
		}
		if !many && c.Prob(1, 6, "cfg.oddname") {
			// names that sort before "_id" bytewise (capitals, digits, "_a", "_ID"), a
			// non-ASCII one, and one that is a prefix of the usual names
			p.Name = []string{"Title", "0num", "_a", "_ID", "Z", "\u00c9t\u00e9", "f", "_"}[c.Choose(8, "cfg.oddnamev")] + strconv.Itoa(i)
		}
		p.Opts = index.IndexField
		if c.Choose(4, "cfg.stored") != 0 {
			p.Opts |= index.StoreField
		}
		if c.Bool("cfg.tv") {
			p.Opts |= index.IncludeTermVectors
		}
		if c.Choose(3, "cfg.dv") != 0 {
			p.Opts |= index.DocValues
		}
		if c.Prob(1, 8, "cfg.unindexed") {
			p.Opts &^= index.IndexField
			p.Opts |= index.StoreField
		}
		if c.Prob(1, 8, "cfg.skipfreq") {
			p.Opts |= index.SkipFreqNorm
		}
		if p.Opts.IncludeDocValues() && c.Prob(1, 10, "cfg.shape") {
			p.Shape = true
		}
		if many {
			// enough terms per field for the dictionaries of one segment to span more
			// than 64 KiB (offsets that differ by exactly 2^16 then exist)
			p.Vocab = genVocab(c, 14, false)
		} else if dense {
			p.Vocab = genVocab(c, 1+c.Choose(2, "cfg.densevocab"), i == 0)
		} else {
			p.Vocab = genVocab(c, vocabSizes[c.Choose(len(vocabSizes), "cfg.vocab")], i == 0)
		}
		g.Fields = append(g.Fields, p)
	}
	g.Composite = c.Choose(3, "cfg.composite") == 0
	if g.Composite && c.Prob(1, 3, "cfg.compositedv") {
		g.CompositeDV = true
	}
	g.IDSpace = 0 // set by caller
	g.MaxToks = 1 + c.Choose(6, "cfg.maxtoks")
	if many {
		g.MaxToks = 5
		g.Many = true
	}
	if dense {
		g.MaxToks = 1 + c.Choose(2, "cfg.densetoks")
		g.Dense = true
	}
	g.WideNums = c.Prob(1, 5, "cfg.widenums")
	g.FlipOpts = c.Prob(1, 8, "cfg.flipopts")
	g.BigVals = c.Prob(1, 10, "cfg.bigvals") && !dense
	g.IDDocVals = c.Prob(1, 8, "cfg.iddocvals")
	if wantSyn {
		ns := 1 + c.Choose(2, "cfg.nsyn")
		for i := 0; i < ns; i++ {
			p := fieldProfile{Name: "syn" + strconv.Itoa(i), Kind: 's', Opts: index.IndexField}
			p.Vocab = genVocab(c, 2+c.Choose(5, "cfg.synvocab"), i == 0)
			if c.Prob(1, 12, "cfg.synbig") {
				// more than 255 distinct synonyms in one thesaurus
				for k := 0; k < 300; k++ {
					p.Vocab = append(p.Vocab, "s"+strconv.Itoa(k))
				}
			}
			g.SynFields = append(g.SynFields, p)
		}
		if !many && c.Prob(1, 8, "cfg.synclash") {
			// an ordinary field carries the name of a thesaurus: the two live in
			// different sections of the segment and do not disturb each other
			g.Fields[c.Choose(len(g.Fields), "cfg.synclashf")].Name = g.SynFields[0].Name
		}
	}
	if wantVec {
		nv := 1 + c.Choose(2, "cfg.nvec")
		sims := []string{"l2_norm", "dot_product", "cosine"}
		opts := []string{"recall", "latency", "memory-efficient"}
		for i := 0; i < nv; i++ {
			p := fieldProfile{Name: "vec" + strconv.Itoa(i), Kind: 'v', Opts: index.IndexField}
			p.Dims = 2 + c.Choose(3, "cfg.dims")
			p.Sim = sims[c.Choose(len(sims), "cfg.sim")]
			p.Opt = opts[c.Choose(len(opts), "cfg.opt")]
			g.VecFields = append(g.VecFields, p)
		}
	}
	return g
}

func idString(n int) string { return "d" + strconv.FormatInt(int64(n), 36) }

func genAP(c *Chooser) []uint64 {
	n := c.Skewed(4, "ap.n")
	if c.Prob(1, 30, "ap.long") {
		n = 5 + c.Choose(12, "ap.longn")
	}
	if n == 0 {
		return nil
	}
	ap := make([]uint64, n)
	for i := range ap {
		ap[i] = uint64(c.Skewed(300, "ap.v"))
	}
	return ap
}

func genTextField(c *Chooser, p *fieldProfile, g *GenCfg, ap []uint64) FieldSpec {
	if g.FlipOpts && !p.Shape {
		// the options are a property of each field instance handed to the builder,
		// not of the field name: in these worlds single instances deviate from the
		// field's usual options
		q := *p
		if c.Prob(1, 4, "fld.flipstore") {
			q.Opts ^= index.StoreField
		}
		if c.Prob(1, 4, "fld.fliptv") {
			q.Opts ^= index.IncludeTermVectors
		}
		if c.Prob(1, 6, "fld.flipdv") {
			q.Opts ^= index.DocValues
		}
		p = &q
	}
	f := FieldSpec{Name: p.Name, Kind: 't', Opts: p.Opts, Typ: "tndb"[c.Choose(4, "fld.typ")], AP: ap}
	if p.Opts.IsStored() {
		n := c.Skewed(24, "fld.vlen")
		if g.BigVals && c.Prob(1, 6, "fld.big") {
			n = 70000 + c.Choose(40000, "fld.biglen")
		}
		v := make([]byte, n)
		for i := range v {
			v[i] = byte('a' + (i*7+n)%23)
		}
		if n > 0 {
			v[0] = byte(c.Choose(256, "fld.v0"))
		}
		f.Value = v
	}
	if !p.Opts.IsIndexed() {
		return f
	}
	nt := c.Choose(g.MaxToks+1, "fld.ntoks")
	used := map[string]int{}
	pos := 0
	off := 0
	for i := 0; i < nt; i++ {
		term := p.Vocab[c.Skewed(len(p.Vocab), "fld.term")]
		pos++
		start := off
		off += len(term) + 1
		ti, ok := used[term]
		if !ok {
			ti = len(f.Toks)
			used[term] = ti
			f.Toks = append(f.Toks, TokSpec{Term: term})
		}
		f.Toks[ti].Freq++
		if p.Opts.IncludeTermVectors() {
			f.Toks[ti].Locs = append(f.Toks[ti].Locs, LocSpec{AP: ap, Start: start, End: start + len(term), Pos: pos})
		}
	}
	f.Len = nt
	if g.WideNums && nt > 0 {
		base := []int{0, 120, 130, 16380, 70000, 126, 254}[c.Choose(7, "wide.base")]
		for i := range f.Toks {
			for j := range f.Toks[i].Locs {
				l := &f.Toks[i].Locs[j]
				l.Pos += base
				l.Start += base * 3
				l.End += base * 3
			}
			// the frequency may exceed the number of recorded locations
			f.Toks[i].Freq += []int{0, 0, 60, 130, 20000, 127, 255}[c.Choose(7, "wide.freq")]
		}
		// (128, 256 and 16384 encode with a varint byte that is exactly 0x80)
		switch k := c.Choose(7, "wide.len"); k {
		case 4:
			f.Len = 128
		case 5:
			f.Len = 256
		case 6:
			f.Len = 16384
		default:
			f.Len += []int{0, 130, 300, 70000}[k]
		}
	}
	if p.Opts.SkipFreqNorm() {
		// frequency and norm are not recorded; term vectors, if the field has
		// them, still are (this is what analysis produces for such a field)
		for i := range f.Toks {
			f.Toks[i].Freq = 0
		}
	}
	if p.Shape && nt > 0 && c.Bool("fld.shape") {
		// a geo-shape field: its encoded shape is an extra doc-value term that is
		// not in the dictionary
		f.Kind = 'g'
		f.Shape = []byte("SHAPE:" + p.Name + ":" + strconv.Itoa(c.Choose(5, "fld.shapev")))
	}
	return f
}

func genDoc(c *Chooser, g *GenCfg, id string) DocSpec {
	d := DocSpec{ID: id}
	idf := FieldSpec{Name: "_id", Kind: 't', Opts: index.IndexField | index.StoreField, Typ: 't',
		Value: []byte(id), Len: 1, Toks: []TokSpec{{Term: id, Freq: 1}}}
	if g.IDDocVals {
		idf.Opts |= index.DocValues
	}
	idFirst := c.Choose(4, "doc.idpos") != 0
	if idFirst {
		d.Fields = append(d.Fields, idf)
	}
	for i := range g.Fields {
		p := &g.Fields[i]
		if c.Choose(4, "doc.hasfield") == 0 && !(g.Dense && c.Choose(4, "doc.hasfield.dense") != 0) {
			continue
		}
		reps := 1
		if c.Prob(1, 5, "doc.array") && !p.Shape {
			// (a shape field has one value per document here: which of several
			// encoded shapes ends up in the doc values is not something any of the
			// properties states)
			reps = 2 + c.Choose(2, "doc.arrayn")
		}
		for r := 0; r < reps; r++ {
			var ap []uint64
			if reps > 1 {
				ap = []uint64{uint64(r)}
				if c.Prob(1, 4, "doc.ap2") {
					ap = append(ap, uint64(c.Choose(200, "doc.apv")))
				}
			} else {
				ap = genAP(c)
			}
			d.Fields = append(d.Fields, genTextField(c, p, g, ap))
		}
	}
	for i := range g.VecFields {
		p := &g.VecFields[i]
		if c.Choose(3, "doc.hasvec") == 0 {
			continue
		}
		nsub := 1 + c.Skewed(3, "doc.nsub")
		vec := make([]float32, nsub*p.Dims)
		for j := range vec {
			vec[j] = float32(c.Choose(7, "doc.vecv")) - 3
		}
		d.Fields = append(d.Fields, FieldSpec{Name: p.Name, Kind: 'v', Opts: p.Opts, Typ: 'v',
			Vec: vec, Dims: p.Dims, Sim: p.Sim, Opt: p.Opt})
	}
	if !idFirst {
		d.Fields = append(d.Fields, idf)
	}
	if g.Composite {
		cf := FieldSpec{Name: "_all", Kind: 'c', Opts: index.IndexField | index.IncludeTermVectors, Typ: 'c'}
		if g.CompositeDV {
			cf.Opts |= index.DocValues
		}
		idx := map[string]int{}
		for _, f := range d.Fields {
			if f.Name == "_id" || (f.Kind != 't' && f.Kind != 'g') || !f.Opts.IsIndexed() {
				continue
			}
			cf.Len += f.Len
			for _, t := range f.Toks {
				ti, ok := idx[t.Term]
				if !ok {
					ti = len(cf.Toks)
					idx[t.Term] = ti
					cf.Toks = append(cf.Toks, TokSpec{Term: t.Term})
				}
				cf.Toks[ti].Freq += t.Freq
				for _, l := range t.Locs {
					l.Field = f.Name
					cf.Toks[ti].Locs = append(cf.Toks[ti].Locs, l)
				}
			}
		}
		d.Composite = append(d.Composite, cf)
	}
	return d
}

func genSynDoc(c *Chooser, g *GenCfg, id string) DocSpec {
	d := DocSpec{ID: id, IsSyn: true}
	d.Fields = append(d.Fields, FieldSpec{Name: "_id", Kind: 't', Opts: index.IndexField | index.StoreField, Typ: 't',
		Value: []byte(id), Len: 1, Toks: []TokSpec{{Term: id, Freq: 1}}})
	n := 1
	if len(g.SynFields) > 1 && c.Prob(1, 3, "syn.two") {
		n = 2
	}
	first := c.Choose(len(g.SynFields), "syn.which")
	for k := 0; k < n; k++ {
		p := &g.SynFields[(first+k)%len(g.SynFields)]
		f := FieldSpec{Name: p.Name, Kind: 's', Opts: p.Opts, Typ: 's'}
		nd := 1 + c.Skewed(3, "syn.ndefs")
		if c.Prob(1, 10, "syn.nodefs") {
			// a synonym field whose definitions were all analysed away: its thesaurus
			// exists and is empty
			nd = 0
		}
		seen := map[string]bool{}
		for i := 0; i < nd; i++ {
			term := p.Vocab[c.Choose(len(p.Vocab), "syn.term")]
			if seen[term] {
				continue
			}
			seen[term] = true
			ns := 1 + c.Skewed(3, "syn.nsyns")
			def := SynDef{Term: term}
			ss := map[string]bool{}
			for j := 0; j < ns; j++ {
				s := p.Vocab[c.Choose(len(p.Vocab), "syn.syn")]
				if s == "" && !g.BadSyn {
					// the empty string is a legal term (dictionary key) but not a legal
					// synonym: the reader rejects a synonym of length 0 by design. Worlds
					// with BadSyn keep it: their thesaurus then fails to load, every time
					// and for every caller alike (error paths of the thesaurus cache)
					s = "~e"
				}
				if !ss[s] {
					ss[s] = true
					def.Syns = append(def.Syns, s)
				}
			}
			f.Syn = append(f.Syn, def)
		}
		d.Fields = append(d.Fields, f)
	}
	return d
}

// genBatch draws a batch of n documents; ids are unique inside the batch and
// drawn from [0,idSpace) so that different batches of one world collide
// (updates).
func genBatch(c *Chooser, g *GenCfg, n int, idSpace int) *BatchSpec {
	b := &BatchSpec{}
	if g.Many && n > 5 {
		n = 5 // hundreds of fields per document: keep the batch tiny
	}
	if idSpace < n {
		idSpace = n
	}
	used := map[int]bool{}
	for i := 0; i < n; i++ {
		id := c.Choose(idSpace, "batch.id")
		for used[id] {
			id = (id + 1) % idSpace
		}
		used[id] = true
		if len(g.SynFields) > 0 && c.Choose(3, "batch.syn") == 0 {
			b.Docs = append(b.Docs, genSynDoc(c, g, idString(id)))
		} else {
			b.Docs = append(b.Docs, genDoc(c, g, idString(id)))
		}
	}
	return b
}

// ---------------------------------------------------------------------------
// materialisation: fresh index.Document objects for every build (zapx's
// MergeAll mutates the token-frequency maps it is given)

// buildEnv receives a callback at every accessor zapx calls while building.
type buildEnv struct {
	cb func(site string)
}

func (e *buildEnv) hit(site string) {
	if e != nil && e.cb != nil {
		e.cb(site)
	}
}

type simField struct {
	spec *FieldSpec
	env  *buildEnv
	tfs  index.TokenFrequencies
}

func (f *simField) Name() string             { return f.spec.Name }
func (f *simField) Value() []byte            { f.env.hit("field.Value"); return f.spec.Value }
func (f *simField) ArrayPositions() []uint64 { return f.spec.AP }
func (f *simField) EncodedFieldType() byte   { return f.spec.Typ }
func (f *simField) Analyze()                 {}
func (f *simField) Options() index.FieldIndexingOptions {
	f.env.hit("field.Options")
	return f.spec.Opts
}
func (f *simField) AnalyzedLength() int { return f.spec.Len }
func (f *simField) AnalyzedTokenFrequencies() index.TokenFrequencies {
	f.env.hit("field.TokenFrequencies")
	return f.tfs
}
func (f *simField) NumPlainTextBytes() uint64 { return uint64(len(f.spec.Value)) }
func (f *simField) Size() int                 { return 0 }

// simShapeField implements index.GeoShapeField (zapx only asks for EncodedShape)
type simShapeField struct{ simField }

func (f *simShapeField) GeoShape() (index.GeoJSON, error) { return nil, nil }
func (f *simShapeField) EncodedShape() []byte             { return f.spec.Shape }

type simComposite struct{ simField }

func (f *simComposite) Compose(field string, length int, freq index.TokenFrequencies) {}

type simSynField struct{ simField }

func (f *simSynField) IterateSynonyms(visitor func(term string, synonyms []string)) {
	f.env.hit("field.IterateSynonyms")
	for _, d := range f.spec.Syn {
		visitor(d.Term, d.Syns)
	}
}

type simVecField struct{ simField }

func (f *simVecField) Vector() []float32         { return f.spec.Vec }
func (f *simVecField) Dims() int                 { return f.spec.Dims }
func (f *simVecField) Similarity() string        { return f.spec.Sim }
func (f *simVecField) IndexOptimizedFor() string { return f.spec.Opt }

type simDoc struct {
	spec   *DocSpec
	env    *buildEnv
	fields []index.Field
	comps  []index.CompositeField
}

func (d *simDoc) ID() string { return d.spec.ID }
func (d *simDoc) Size() int  { return 0 }
func (d *simDoc) VisitFields(v index.FieldVisitor) {
	d.env.hit("doc.VisitFields")
	for _, f := range d.fields {
		v(f)
	}
}
func (d *simDoc) VisitComposite(v index.CompositeFieldVisitor) {
	for _, f := range d.comps {
		v(f)
	}
}
func (d *simDoc) HasComposite() bool        { return len(d.comps) > 0 }
func (d *simDoc) NumPlainTextBytes() uint64 { return 0 }
func (d *simDoc) AddIDField()               {}
func (d *simDoc) StoredFieldsBytes() uint64 { return 0 }
func (d *simDoc) Indexed() bool             { return true }

type simSynDoc struct{ simDoc }

func (d *simSynDoc) VisitSynonymFields(v index.SynonymFieldVisitor) {
	for _, f := range d.fields {
		if sf, ok := f.(index.SynonymField); ok {
			v(sf)
		}
	}
}

func makeTFs(toks []TokSpec) index.TokenFrequencies {
	if len(toks) == 0 {
		return nil
	}
	tfs := make(index.TokenFrequencies, len(toks))
	for i := range toks {
		t := &toks[i]
		tf := &index.TokenFreq{Term: []byte(t.Term)}
		tf.SetFrequency(t.Freq)
		for j := range t.Locs {
			l := &t.Locs[j]
			tf.Locations = append(tf.Locations, &index.TokenLocation{
				Field: l.Field, ArrayPositions: l.AP, Start: l.Start, End: l.End, Position: l.Pos})
		}
		tfs[t.Term] = tf
	}
	return tfs
}

// Materialize turns a batch specification into fresh document objects.
func Materialize(b *BatchSpec, env *buildEnv) []index.Document {
	docs := make([]index.Document, 0, len(b.Docs))
	for i := range b.Docs {
		ds := &b.Docs[i]
		d := simDoc{spec: ds, env: env}
		for j := range ds.Fields {
			fs := &ds.Fields[j]
			base := simField{spec: fs, env: env}
			switch fs.Kind {
			case 's':
				d.fields = append(d.fields, &simSynField{base})
			case 'v':
				d.fields = append(d.fields, &simVecField{base})
			case 'g':
				base.tfs = makeTFs(fs.Toks)
				d.fields = append(d.fields, &simShapeField{base})
			default:
				base.tfs = makeTFs(fs.Toks)
				f := base
				d.fields = append(d.fields, &f)
			}
		}
		for j := range ds.Composite {
			fs := &ds.Composite[j]
			d.comps = append(d.comps, &simComposite{simField{spec: fs, env: env, tfs: makeTFs(fs.Toks)}})
		}
		if ds.IsSyn {
			sd := &simSynDoc{d}
			docs = append(docs, sd)
		} else {
			dd := d
			docs = append(docs, &dd)
		}
	}
	return docs
}

func (b *BatchSpec) summary() string {
	nf := map[string]bool{}
	syn, vec := 0, 0
	for i := range b.Docs {
		for j := range b.Docs[i].Fields {
			nf[b.Docs[i].Fields[j].Name] = true
			switch b.Docs[i].Fields[j].Kind {
			case 's':
				syn++
			case 'v':
				vec++
			}
		}
	}
	return fmt.Sprintf("docs=%d fields=%d synfields=%d vecfields=%d", len(b.Docs), len(nf), syn, vec)
}
