package main

// One integer decides everything: every choice of a run goes through
// Chooser.Choose, which draws from a private xoshiro256** stream seeded from
// (VERIF_SEED, property, run index) and records the value in the choice trace.
// In replay mode Choose reads the trace instead; exhausted or out-of-range
// entries read as 0, which is always the simplest choice.

type xoshiro struct{ s [4]uint64 }

func splitmix(x *uint64) uint64 {
	*x += 0x9e3779b97f4a7c15
	z := *x
	z = (z ^ (z >> 30)) * 0xbf58476d1ce4e5b9
	z = (z ^ (z >> 27)) * 0x94d049bb133111eb
	return z ^ (z >> 31)
}

func newXoshiro(seed uint64) xoshiro {
	var x xoshiro
	for i := range x.s {
		x.s[i] = splitmix(&seed)
	}
	return x
}

func rotl(x uint64, k uint) uint64 { return (x << k) | (x >> (64 - k)) }

func (x *xoshiro) next() uint64 {
	r := rotl(x.s[1]*5, 7) * 9
	t := x.s[1] << 17
	x.s[2] ^= x.s[0]
	x.s[3] ^= x.s[1]
	x.s[1] ^= x.s[2]
	x.s[0] ^= x.s[3]
	x.s[2] ^= t
	x.s[3] = rotl(x.s[3], 45)
	return r
}

func mixSeed(base uint64, prop string, run int) uint64 {
	h := base ^ 0x5851f42d4c957f2d
	for _, c := range []byte(prop) {
		h = (h ^ uint64(c)) * 0x100000001b3
	}
	h ^= uint64(run) * 0x9e3779b97f4a7c15
	return splitmix(&h)
}

type Chooser struct {
	rng       xoshiro
	replaying bool
	replay    []int
	pos       int
	trace     []int
	labels    []string // only kept when keepLabels
	keep      bool
	stream    func(v int) // optional: called for every choice (crash-safe trace streaming)
}

func newChooser(seed uint64) *Chooser { return &Chooser{rng: newXoshiro(seed)} }

func newReplayChooser(trace []int) *Chooser {
	return &Chooser{replaying: true, replay: trace}
}

// Choose returns a value in [0,n). n<=1 returns 0 without consuming a choice.
func (c *Chooser) Choose(n int, label string) int {
	if n <= 1 {
		return 0
	}
	var v int
	if c.replaying {
		if c.pos < len(c.replay) {
			v = c.replay[c.pos]
			if v < 0 || v >= n {
				v = 0
			}
		}
		c.pos++
	} else {
		v = int(c.rng.next() % uint64(n))
	}
	c.trace = append(c.trace, v)
	if c.keep {
		c.labels = append(c.labels, label)
	}
	if c.stream != nil {
		c.stream(v)
	}
	return v
}

// Range returns a value in [lo,hi] (inclusive); the simplest choice is lo.
func (c *Chooser) Range(lo, hi int, label string) int {
	if hi <= lo {
		return lo
	}
	return lo + c.Choose(hi-lo+1, label)
}

// Prob is true with probability num/den; the simplest choice (0) is false.
func (c *Chooser) Prob(num, den int, label string) bool {
	if num <= 0 {
		return false
	}
	return c.Choose(den, label) >= den-num
}

func (c *Chooser) Bool(label string) bool { return c.Choose(2, label) == 1 }

// Pick returns an index biased towards small values (half the mass on the
// lower quarter); the simplest choice is 0.
func (c *Chooser) Skewed(n int, label string) int {
	if n <= 1 {
		return 0
	}
	v := c.Choose(n*2, label)
	if v < n {
		return v
	}
	q := n / 4
	if q < 1 {
		q = 1
	}
	return (v - n) % q
}
