//go:build vectors

package main

import (
	"fmt"
	"runtime"
	"time"

	"github.com/RoaringBitmap/roaring/v2"
	faiss "github.com/blevesearch/go-faiss"
	segment "github.com/blevesearch/scorch_segment_api/v2"
	zap "github.com/blevesearch/zapx/v16"
)

const vectorsBuild = true

func init() {
	// the 1 s monitor ticker is parked; expiry happens only through the hook
	zap.VerifSetVecMonitorFreq(24 * time.Hour)
}

type fieldStats struct{ m map[string]map[string]uint64 }

func (f *fieldStats) Store(stat, field string, v uint64) {
	if f.m[stat] == nil {
		f.m[stat] = map[string]uint64{}
	}
	f.m[stat][field] = v
}
func (f *fieldStats) Aggregate(segment.FieldStats)        {}
func (f *fieldStats) Fetch() map[string]map[string]uint64 { return f.m }

func vecSearchAll(vi segment.VectorIndex, q []float32, k int64, eligible []uint64, filtered bool) ([]CVecHit, error) {
	var pl segment.VecPostingsList
	var err error
	if filtered {
		pl, err = vi.SearchWithFilter(q, k, eligible, nil)
	} else {
		pl, err = vi.Search(q, k, nil)
	}
	if err != nil {
		return nil, err
	}
	if pl == nil {
		return nil, fmt.Errorf("nil VecPostingsList")
	}
	it := pl.Iterator(nil)
	var hits []CVecHit
	for {
		p, err := it.Next()
		if err != nil {
			return nil, err
		}
		if p == nil {
			break
		}
		hits = append(hits, CVecHit{Doc: p.Number(), Score: p.Score()})
		if len(hits) > 1<<20 {
			return nil, fmt.Errorf("runaway vector postings iteration")
		}
	}
	if uint64(len(hits)) != pl.Count() {
		return nil, fmt.Errorf("VecPostingsList.Count()=%d but iterator returned %d", pl.Count(), len(hits))
	}
	sortVecHits(hits)
	return hits, nil
}

func extractVectors(seg segment.Segment, o *ExtractOpts, c *Canon) error {
	vs, ok := seg.(segment.VectorSegment)
	if !ok {
		return fmt.Errorf("segment is not a VectorSegment")
	}
	fs := &fieldStats{m: map[string]map[string]uint64{}}
	if r, ok := seg.(segment.FieldStatsReporter); ok {
		r.UpdateFieldStats(fs)
	}
	for _, f := range uniqSorted(append(append([]string(nil), c.Fields...), o.VecFields...)) {
		vi, err := vs.InterpretVectorIndex(f, false, (*roaring.Bitmap)(nil))
		if err != nil {
			return fmt.Errorf("InterpretVectorIndex(%q): %v", f, err)
		}
		cv := &CVecField{}
		cv.NumVecs, cv.HasStat = fs.m["num_vectors"][f]
		any := cv.HasStat
		for _, q := range o.VecProbes {
			hits, err := vecSearchAll(vi, q, 1<<16, nil, false)
			if err != nil {
				vi.Close()
				return fmt.Errorf("vector search field %q: %v", f, err)
			}
			if len(hits) > 0 {
				any = true
			}
			cv.Results = append(cv.Results, hits)
			// small k on an exact index (below 1000 vectors the index is a flat one):
			// at least one and at most k hits, each of them one of the hits of the
			// exhaustive search - a vector that should not be in the index (of a deleted
			// document, say) must not take one of the k places
			if len(hits) < 1000 {
				for _, k := range []int64{1, 2, 3} {
					small, err := vecSearchAll(vi, q, k, nil, false)
					if err != nil {
						vi.Close()
						return fmt.Errorf("vector search field %q k=%d: %v", f, k, err)
					}
					// (hits are (document, score) pairs: two of the k nearest vectors that
					// belong to one document at the same distance are one hit, so fewer than
					// k hits is legal - none at all is not, and more than k neither)
					if (len(small) == 0 && len(hits) > 0) || int64(len(small)) > k {
						vi.Close()
						return fmt.Errorf("vector search field %q query %v: k=%d returns %d hits %v, the exhaustive search returns %d %v", f, q, k, len(small), small, len(hits), hits)
					}
					for _, h := range small {
						found := false
						for _, x := range hits {
							if x == h {
								found = true
								break
							}
						}
						if !found {
							vi.Close()
							return fmt.Errorf("vector search field %q query %v: k=%d returns %v, which the exhaustive search (%v) does not contain", f, q, k, h, hits)
						}
					}
				}
			}
		}
		vi.Close()
		if any {
			c.Vec[f] = cv
		}
	}
	return nil
}

func engineLive() int64 { return faiss.Snapshot().Live }

// engineQuiesce lets the goroutines spawned by cache-entry close (go
// index.Close()) run to completion: with GOMAXPROCS(1) they only run when the
// caller yields the processor.
func engineQuiesce() {
	last := faiss.Snapshot().Closed
	stable := 0
	for i := 0; i < 10000 && stable < 3; i++ {
		runtime.Gosched()
		now := faiss.Snapshot().Closed
		if now == last {
			stable++
		} else {
			stable = 0
			last = now
		}
	}
}

func resetEngineHooks() {
	faiss.Hook = nil
	faiss.ResetCounters()
}

func setEngineHook(h func(op string, n int) error) { faiss.Hook = h }

func setEngineQuiet(q bool) { faiss.Quiet = q }

func engineOpSequence() []string { return faiss.OpSequence() }

// loadVectorCaches opens, searches and closes every vector field of the segment
// once, so that the segment's index cache holds their native indexes.
func loadVectorCaches(w *World, seg segment.Segment) (int, error) {
	vs, ok := seg.(segment.VectorSegment)
	if !ok {
		return 0, nil
	}
	n := 0
	for _, f := range w.Cfg.VecFields {
		vi, err := vs.InterpretVectorIndex(f.Name, false, (*roaring.Bitmap)(nil))
		if err != nil {
			return n, fmt.Errorf("InterpretVectorIndex(%q): %v", f.Name, err)
		}
		if _, err := vi.Search(make([]float32, f.Dims), 3, nil); err != nil {
			vi.Close()
			return n, err
		}
		vi.Close()
		n++
	}
	return n, nil
}
