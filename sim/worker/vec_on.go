//go:build vectors

package main

import (
	"fmt"
	"runtime"
	"time"

	"github.com/RoaringBitmap/roaring/v2"
	faiss "github.com/blevesearch/go-faiss"
	segment "github.com/blevesearch/scorch_segment_api/v2"
	zap "github.com/blevesearch/zapx/v16"
)

const vectorsBuild = true

func init() {
	// the 1 s monitor ticker is parked; expiry happens only through the hook
	zap.VerifSetVecMonitorFreq(24 * time.Hour)
}

type fieldStats struct{ m map[string]map[string]uint64 }

func (f *fieldStats) Store(stat, field string, v uint64) {
	if f.m[stat] == nil {
		f.m[stat] = map[string]uint64{}
	}
	f.m[stat][field] = v
}
func (f *fieldStats) Aggregate(segment.FieldStats)        {}
func (f *fieldStats) Fetch() map[string]map[string]uint64 { return f.m }

func vecSearchAll(vi segment.VectorIndex, q []float32, k int64, eligible []uint64, filtered bool) ([]CVecHit, error) {
	var pl segment.VecPostingsList
	var err error
	if filtered {
		pl, err = vi.SearchWithFilter(q, k, eligible, nil)
	} else {
		pl, err = vi.Search(q, k, nil)
	}
	if err != nil {
		return nil, err
	}
	if pl == nil {
		return nil, fmt.Errorf("nil VecPostingsList")
	}
	it := pl.Iterator(nil)
	var hits []CVecHit
	for {
		p, err := it.Next()
		if err != nil {
			return nil, err
		}
		if p == nil {
			break
		}
		hits = append(hits, CVecHit{Doc: p.Number(), Score: p.Score()})
		if len(hits) > 1<<20 {
			return nil, fmt.Errorf("runaway vector postings iteration")
		}
	}
	if uint64(len(hits)) != pl.Count() {
		return nil, fmt.Errorf("VecPostingsList.Count()=%d but iterator returned %d", pl.Count(), len(hits))
	}
	sortVecHits(hits)
	return hits, nil
}

func extractVectors(seg segment.Segment, o *ExtractOpts, c *Canon) error {
	vs, ok := seg.(segment.VectorSegment)
	if !ok {
		return fmt.Errorf("segment is not a VectorSegment")
	}
	fs := &fieldStats{m: map[string]map[string]uint64{}}
	if r, ok := seg.(segment.FieldStatsReporter); ok {
		r.UpdateFieldStats(fs)
	}
	for _, f := range uniqSorted(append(append([]string(nil), c.Fields...), o.VecFields...)) {
		vi, err := vs.InterpretVectorIndex(f, false, (*roaring.Bitmap)(nil))
		if err != nil {
			return fmt.Errorf("InterpretVectorIndex(%q): %v", f, err)
		}
		cv := &CVecField{}
		cv.NumVecs, cv.HasStat = fs.m["num_vectors"][f]
		any := cv.HasStat
		for _, q := range o.VecProbes {
			hits, err := vecSearchAll(vi, q, 1<<16, nil, false)
			if err != nil {
				vi.Close()
				return fmt.Errorf("vector search field %q: %v", f, err)
			}
			if len(hits) > 0 {
				any = true
			}
			cv.Results = append(cv.Results, hits)
		}
		vi.Close()
		if any {
			c.Vec[f] = cv
		}
	}
	return nil
}

func engineLive() int64 { return faiss.Snapshot().Live }

// engineQuiesce lets the goroutines spawned by cache-entry close (go
// index.Close()) run to completion: with GOMAXPROCS(1) they only run when the
// caller yields the processor.
func engineQuiesce() {
	last := faiss.Snapshot().Closed
	stable := 0
	for i := 0; i < 10000 && stable < 3; i++ {
		runtime.Gosched()
		now := faiss.Snapshot().Closed
		if now == last {
			stable++
		} else {
			stable = 0
			last = now
		}
	}
}

func resetEngineHooks() {
	faiss.Hook = nil
	faiss.ResetCounters()
}

func setEngineHook(h func(op string, n int) error) { faiss.Hook = h }

func setEngineQuiet(q bool) { faiss.Quiet = q }

func engineOpSequence() []string { return faiss.OpSequence() }
