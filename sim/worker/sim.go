package main

// Scheduler: every simulated task is a real goroutine that runs only while it
// holds the baton. At each yield the scheduler asks the Chooser which runnable
// task continues, so one seed is one interleaving.
//
// Two baton transports:
//   plain: unbuffered channels (GOMAXPROCS(1)); used by all semantic oracles.
//   tsan : one byte through per-task pipes moved with raw syscall.Syscall, which
//          carries no race-detector annotation. The execution is still strictly
//          one-task-at-a-time, but the race detector sees only the program's
//          own synchronisation and reports any two conflicting accesses that
//          zapx itself fails to order. In this mode tasks must not touch shared
//          harness state (enforced by construction: ops are pre-drawn, logs are
//          task-private, the only shared word is `cur`, written by the
//          scheduler and read by tasks - an edge scheduler->task only).

import (
	"fmt"
	"runtime"
	"runtime/debug"
	"sync"
	"sync/atomic"
	"syscall"
	"time"
	"unsafe"
)

type Task struct {
	id    int
	name  string
	fn    func(t *Task)
	sim   *Sim
	rfd   int // tsan: task reads its resume byte here
	wfd   int
	ch    chan struct{} // plain: resume
	state int32         // scheduler-owned: 0 parked/runnable, 1 running, 2 done
	goid  int64
	// task-private:
	yields  int
	frames  []int // active API-call frame ids (pool monitor)
	panicV  interface{}
	panicSt string
}

type Sim struct {
	ch       *Chooser
	tasks    []*Task
	cur      unsafe.Pointer // *Task; stored by scheduler, loaded by tasks
	tsan     bool
	yieldCh  chan byte // plain: task -> scheduler; message = id<<1 | (1 if done)
	srfd     int       // tsan: scheduler reads here
	swfd     int
	steps    int
	maxSteps int
	wg       sync.WaitGroup
	// reach statistics (scheduler-owned)
	switches    int
	siteCounts  map[string]int // plain mode only
	schedTrace  []byte         // first picks, for distinct-schedule measure
	lastPicked  int
	stalled     bool
	lockStalls  int
	everStalled int32
}

func newSim(ch *Chooser, tsan bool, maxSteps int) *Sim {
	s := &Sim{ch: ch, tsan: tsan, maxSteps: maxSteps, siteCounts: map[string]int{}, lastPicked: -1}
	if tsan {
		var p [2]int
		if err := syscall.Pipe(p[:]); err != nil {
			panic(err)
		}
		s.srfd, s.swfd = p[0], p[1]
	} else {
		s.yieldCh = make(chan byte)
	}
	return s
}

func (s *Sim) Spawn(name string, fn func(t *Task)) *Task {
	t := &Task{id: len(s.tasks), name: name, fn: fn, sim: s}
	if s.tsan {
		var p [2]int
		if err := syscall.Pipe(p[:]); err != nil {
			panic(err)
		}
		t.rfd, t.wfd = p[0], p[1]
	} else {
		t.ch = make(chan struct{})
	}
	s.tasks = append(s.tasks, t)
	return t
}

func rawWrite(fd int, b byte) {
	buf := [1]byte{b}
	for {
		n, _, e := syscall.Syscall(syscall.SYS_WRITE, uintptr(fd), uintptr(unsafe.Pointer(&buf[0])), 1)
		if n == 1 {
			return
		}
		if e != syscall.EINTR && e != syscall.EAGAIN {
			panic(fmt.Sprintf("rawWrite: %v", e))
		}
	}
}

func rawRead(fd int) byte {
	var buf [1]byte
	for {
		n, _, e := syscall.Syscall(syscall.SYS_READ, uintptr(fd), uintptr(unsafe.Pointer(&buf[0])), 1)
		if n == 1 {
			return buf[0]
		}
		if e != syscall.EINTR && e != syscall.EAGAIN {
			panic(fmt.Sprintf("rawRead: %v n=%d", e, n))
		}
	}
}

func (t *Task) waitResume() {
	if t.sim.tsan {
		rawRead(t.rfd)
	} else {
		<-t.ch
	}
}

// signal tells the scheduler that this task yields ('y') or is done ('d'). The
// message carries the task id, because after a lock-under-yield recovery (see
// Run) more than one task can be running.
func (t *Task) signal(b byte) {
	m := byte(t.id << 1)
	if b == 'd' {
		m |= 1
	}
	if t.sim.tsan {
		rawWrite(t.sim.swfd, m)
	} else {
		t.sim.yieldCh <- m
	}
}

// rawReadTimeout reads one byte, or returns ok=false after ms milliseconds.
func rawReadTimeout(fd int, ms int) (byte, bool) {
	type pollfd struct {
		fd      int32
		events  int16
		revents int16
	}
	for {
		p := pollfd{fd: int32(fd), events: 1} // POLLIN
		n, _, e := syscall.Syscall(syscall.SYS_POLL, uintptr(unsafe.Pointer(&p)), 1, uintptr(ms))
		if e == syscall.EINTR {
			continue
		}
		if int(n) <= 0 {
			return 0, false
		}
		return rawRead(fd), true
	}
}

// Current returns the task that holds the baton, or nil outside Run.
func (s *Sim) Current() *Task {
	t := (*Task)(atomic.LoadPointer(&s.cur))
	if t == nil || atomic.LoadInt32(&s.everStalled) == 0 {
		return t
	}
	// after a lock-under-yield recovery several tasks may be running: identify
	// the caller by its goroutine id
	g := goid()
	for _, tt := range s.tasks {
		if atomic.LoadInt64(&tt.goid) == g {
			return tt
		}
	}
	return nil
}

func goid() int64 {
	var buf [64]byte
	n := runtime.Stack(buf[:], false)
	// "goroutine 123 [running]:"
	var id int64
	for _, c := range buf[10:n] {
		if c < '0' || c > '9' {
			break
		}
		id = id*10 + int64(c-'0')
	}
	return id
}

// Yield gives the baton back to the scheduler; a no-op when called from a
// goroutine that is not the running task (e.g. the main goroutine in a solo
// phase).
func (s *Sim) Yield(site string) {
	if s == nil {
		return
	}
	t := s.Current()
	if t == nil {
		return
	}
	t.yields++
	if !s.tsan {
		s.siteCounts[site]++
	}
	t.signal('y')
	t.waitResume()
}

// Run executes all spawned tasks to completion under the seeded schedule.
func (s *Sim) Run() {
	for _, t := range s.tasks {
		s.wg.Add(1)
		go func(t *Task) {
			defer s.wg.Done()
			debug.SetPanicOnFault(true) // per goroutine: a read through an unmapped segment becomes a recoverable panic
			atomic.StoreInt64(&t.goid, goid())
			t.waitResume()
			func() {
				defer func() {
					if r := recover(); r != nil {
						t.panicV = r
						t.panicSt = stackString()
					}
				}()
				t.fn(t)
			}()
			t.signal('d')
		}(t)
	}
	live := len(s.tasks)
	runnable := make([]*Task, 0, len(s.tasks))
	running := 0 // normally 0 or 1; 2+ only after a lock-under-yield recovery
	const stallMs = 3000
	recv := func() (byte, bool) {
		if s.tsan {
			return rawReadTimeout(s.srfd, stallMs)
		}
		select {
		case b := <-s.yieldCh:
			return b, true
		case <-time.After(stallMs * time.Millisecond):
			return 0, false
		}
	}
	for live > 0 {
		if running == 0 || s.stalled {
			runnable = runnable[:0]
			for _, t := range s.tasks {
				if t.state == 0 {
					runnable = append(runnable, t)
				}
			}
			if len(runnable) > 0 {
				pick := 0
				if s.steps < s.maxSteps {
					pick = s.ch.Choose(len(runnable), "sched")
				}
				s.steps++
				t := runnable[pick]
				if t.id != s.lastPicked {
					s.switches++
					s.lastPicked = t.id
				}
				if len(s.schedTrace) < 16 {
					s.schedTrace = append(s.schedTrace, byte('0'+t.id))
				}
				t.state = 1
				running++
				atomic.StorePointer(&s.cur, unsafe.Pointer(t))
				if s.tsan {
					rawWrite(t.wfd, 'r')
				} else {
					t.ch <- struct{}{}
				}
			}
			s.stalled = false
		}
		m, ok := recv()
		if !ok {
			// The running task neither yielded nor finished for 3 s: it is blocked
			// on a lock held by a parked task, i.e. the code under test reached a
			// yield point while holding a lock (the hooks are placed so that the
			// unchanged tree never does). Let another parked task run as well, so
			// that the holder can release the lock; from here on this run is no
			// longer strictly one-task-at-a-time (counted, not a verdict).
			s.lockStalls++
			s.stalled = true
			atomic.StoreInt32(&s.everStalled, 1)
			continue
		}
		t := s.tasks[int(m>>1)]
		running--
		if m&1 == 1 {
			t.state = 2
			live--
		} else {
			t.state = 0
		}
	}
	atomic.StorePointer(&s.cur, nil)
	s.wg.Wait()
	if s.tsan {
		syscall.Close(s.srfd)
		syscall.Close(s.swfd)
		for _, t := range s.tasks {
			syscall.Close(t.rfd)
			syscall.Close(t.wfd)
		}
	}
}
