package main

import (
	"fmt"
	"math/rand"
	"os"
	"path/filepath"
	"runtime"
	"runtime/debug"
	"sort"
	"strings"

	zap "github.com/blevesearch/zapx/v16"
)

type Violation struct {
	Oracle string `json:"oracle"`
	Site   string `json:"site"`
	Msg    string `json:"msg"`
}

func (v *Violation) Class() string { return v.Oracle + "@" + v.Site }

type violationPanic struct{ v *Violation }

// RunCtx is the state of one simulated run.
type RunCtx struct {
	Prop   string
	Tier   string
	Idx    int
	Seed   uint64
	ch     *Chooser
	tmp    string
	Stats  map[string]int
	Events []string
	dig    *digester
	viol   *Violation
	// evidence
	NonTrivial bool
	States     map[uint64]struct{} // distinct canonical digests seen in this run
	Sample     map[string]interface{}
	Scheds     []string // schedule prefixes (first 16 picks) of the simulations of this run
	tsan       bool
	sim        *Sim
	nfile      int
	verbose    bool
	// strace child mode (C17): perform the straceIdx-th syscall-injected operation
	// on straceTarget, write its outcome next to it and exit
	straceTarget string
	straceIdx    int
	straceSeen   int
}

func stackString() string {
	buf := make([]byte, 16<<10)
	n := runtime.Stack(buf, false)
	return string(buf[:n])
}

// fail records a violation and unwinds the run.
func (r *RunCtx) fail(oracle, site, format string, args ...interface{}) {
	v := &Violation{Oracle: oracle, Site: site, Msg: fmt.Sprintf(format, args...)}
	panic(violationPanic{v})
}

func (r *RunCtx) ev(format string, args ...interface{}) {
	s := fmt.Sprintf(format, args...)
	r.dig.s(s)
	if len(r.Events) < 400 {
		r.Events = append(r.Events, s)
	}
}

// evv logs an event whose text contains numbers that legitimately vary
// between two executions of the same seed (file sizes and byte offsets derived
// from them: zapx lays sections out in Go map iteration order). Only the stable
// key enters the run digest.
func (r *RunCtx) evv(key string, format string, args ...interface{}) {
	r.dig.s(key)
	if len(r.Events) < 400 {
		r.Events = append(r.Events, fmt.Sprintf(format, args...))
	}
}

func (r *RunCtx) count(name string) { r.Stats[name]++ }
func (r *RunCtx) countN(name string, n int) {
	if n != 0 {
		r.Stats[name] += n
	}
}

func (r *RunCtx) state(d uint64) { r.States[d] = struct{}{} }

func (r *RunCtx) sched(s *Sim) {
	r.Scheds = append(r.Scheds, fmt.Sprintf("%d:%s", len(s.tasks), s.schedTrace))
	r.state(hashString(string(s.schedTrace)))
}

// path returns a fresh relative-named file path inside the run's temp dir.
func (r *RunCtx) path(kind string) string {
	r.nfile++
	return filepath.Join(r.tmp, fmt.Sprintf("%s%03d.zap", kind, r.nfile))
}

const (
	defChunkMode   = 1026
	defLegacyChunk = 1024
	defMergeBuf    = 1024 * 1024
)

var defaultValidate = zap.ValidateDocFields

// resetWorld puts every process-wide knob and hook back to its default and
// empties the sync.Pools, so that a run is a function of its seed alone.
func resetWorld(seed uint64) {
	zap.DefaultChunkMode = defChunkMode
	zap.LegacyChunkMode = defLegacyChunk
	zap.DefaultFileMergerBufferSize = defMergeBuf
	zap.NewSegmentBufferNumResultsBump = 100
	zap.NewSegmentBufferNumResultsFactor = 1.0
	zap.NewSegmentBufferAvgBytesPerDocFactor = 1.0
	zap.ValidateDocFields = defaultValidate
	zap.VerifYield = nil
	zap.VerifPoolGet = nil
	zap.VerifPoolPut = nil
	resetEngineHooks()
	rand.Seed(int64(seed))
	flushPools()
}

// flushPools empties every sync.Pool (primary and victim caches).
func flushPools() {
	runtime.GC()
	runtime.GC()
}

func setupRuntime(tsan bool) {
	debug.SetPanicOnFault(true)
	setEngineQuiet(tsan)
	if !tsan {
		runtime.GOMAXPROCS(1)
		// No automatic collection (sync.Pool is emptied by a collection, and pool
		// contents are part of the simulated state; explicit flushes are events) -
		// except when a heavy run piles up more than 1 GiB of garbage: then the
		// runtime collects rather than letting the worker run into the memory guard.
		debug.SetGCPercent(-1)
		debug.SetMemoryLimit(1 << 30)
	} else {
		runtime.GOMAXPROCS(8)
	}
}

// executeRun runs one driver under a fresh world and converts panics into
// violations (a panic inside zapx while the harness only makes legal calls is
// a violation of the property being run; a panic in harness code would be a
// harness bug and is reported with its stack so that it can be told apart).
func executeRun(prop, tier string, idx int, seed uint64, ch *Chooser, tsan bool, verbose bool) (r *RunCtx) {
	r = &RunCtx{Prop: prop, Tier: tier, Idx: idx, Seed: seed, ch: ch, Stats: map[string]int{},
		dig: newDigester(), States: map[uint64]struct{}{}, Sample: map[string]interface{}{}, tsan: tsan, verbose: verbose,
		straceTarget: straceChildTarget, straceIdx: straceChildIdx}
	resetWorld(seed)
	tmp, err := os.MkdirTemp("", "vsim")
	if err != nil {
		fmt.Fprintln(os.Stderr, "mkdirtemp:", err)
		os.Exit(2)
	}
	r.tmp = tmp
	defer os.RemoveAll(tmp)
	defer func() {
		if rec := recover(); rec != nil {
			if vp, ok := rec.(violationPanic); ok {
				r.viol = vp.v
				return
			}
			st := stackString()
			r.viol = &Violation{Oracle: "panic", Site: panicSite(st), Msg: fmt.Sprintf("panic: %v\n%s", rec, st)}
		}
	}()
	drv, ok := drivers[prop]
	if !ok {
		fmt.Fprintln(os.Stderr, "no driver for", prop)
		os.Exit(2)
	}
	defer startHangMonitor(idx)()
	drv(r)
	return r
}

// panicSite extracts the innermost zapx frame (function name) of a stack, so
// that minimisation keeps the same violation class.
func panicSite(st string) string {
	for _, line := range strings.Split(st, "\n") {
		if strings.HasPrefix(line, "github.com/blevesearch/zapx/v16.") {
			f := strings.TrimPrefix(line, "github.com/blevesearch/zapx/v16.")
			if i := strings.LastIndexByte(f, '('); i > 0 {
				f = f[:i]
			}
			return f
		}
	}
	return "harness"
}

func sortedStatKeys(m map[string]int) []string {
	ks := make([]string, 0, len(m))
	for k := range m {
		ks = append(ks, k)
	}
	sort.Strings(ks)
	return ks
}

type driverFn func(r *RunCtx)

var drivers = map[string]driverFn{}

// set from the command line in strace child mode
var straceChildTarget string
var straceChildIdx int
