//go:build !vectors

package main

import (
	segment "github.com/blevesearch/scorch_segment_api/v2"
)

const vectorsBuild = false

func extractVectors(seg segment.Segment, o *ExtractOpts, c *Canon) error { return nil }

func engineLive() int64 { return 0 }

func engineQuiesce() {}

func resetEngineHooks() {}

func setEngineHook(h func(op string, n int) error) {}

func setEngineQuiet(q bool) {}

func engineOpSequence() []string { return nil }

func engineFaults(r *RunCtx) { r.fail("harness", "C19", "C19 needs the vectors build") }

func loadVectorCaches(w *World, seg segment.Segment) (int, error) { return 0, nil }
