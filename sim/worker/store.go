package main

// A small segment store: build, persist+open, merge, with the canonical
// answers of every live segment remembered. Used by all drivers.

import (
	"bytes"
	"encoding/binary"
	"fmt"
	index "github.com/blevesearch/bleve_index_api"
	"hash/crc32"
	"math"
	"os"
	"sort"

	"github.com/RoaringBitmap/roaring/v2"
	segment "github.com/blevesearch/scorch_segment_api/v2"
	zap "github.com/blevesearch/zapx/v16"
)

var plugin = &zap.ZapPlugin{}

type SegH struct {
	Name  string
	Seg   segment.Segment
	Kind  string // mem | mmap | merged
	Path  string
	Canon *Canon
	Spec  *BatchSpec
	Depth int
	Mode  uint32       // chunk mode it was written with
	Size  uint64       // size reported by New / Merge
	Roots map[int]bool // lineage: builds this segment descends from
}

type World struct {
	r      *RunCtx
	Cfg    *GenCfg
	Segs   []*SegH
	nseg   int
	Probes [][]float32
	XOpts  ExtractOpts
	// LargeDen, when non-zero, makes 1 batch in LargeDen a large one (default 60)
	LargeDen int
	// PopParts: which parts of the Merged relation populate() checks on the merges
	// it performs to give a protocol driver merged segments to work on
	PopParts MergeParts
	lastK    int // write callbacks of the last complete merge
}

var chunkModes = []uint32{1, 2, 3, 5, 7, 64, 1024, 1025, 1026}
var legacyModes = []uint32{1, 2, 3, 7, 64, 1024}
var mergeBufs = []int{16, 64, 256, 4096, 1 << 20, 1, 3, 7, 0}

// newWorldBadSyn is newWorld for the drivers whose oracle is "the same answer as
// alone", errors included (C11, C20): one synonym world in six contains a
// zero-length synonym, so that loading its thesaurus fails.
func newWorldBadSyn(r *RunCtx, wantSyn, wantVec bool) *World {
	w := newWorld(r, wantSyn, wantVec)
	if wantSyn && r.ch.Prob(1, 6, "cfg.badsyn") {
		w.Cfg.BadSyn = true
		w.XOpts.ThesErrOK = true
		// make sure the empty string is in the vocabulary of the first thesaurus
		v := w.Cfg.SynFields[0].Vocab
		if len(v) == 0 || v[0] != "" {
			w.Cfg.SynFields[0].Vocab = append([]string{""}, v...)
		}
		// If the builder refuses a zero-length synonym outright (a legitimate way of
		// closing the gap between what it writes and what the reader accepts), there
		// is no unloadable thesaurus to be had: an ordinary world then.
		probe := &BatchSpec{Docs: []DocSpec{{ID: "probe", IsSyn: true, Fields: []FieldSpec{
			{Name: "_id", Kind: 't', Opts: index.IndexField | index.StoreField, Typ: 't', Value: []byte("probe"), Len: 1, Toks: []TokSpec{{Term: "probe", Freq: 1}}},
			{Name: w.Cfg.SynFields[0].Name, Kind: 's', Opts: w.Cfg.SynFields[0].Opts, Typ: 's', Syn: []SynDef{{Term: "a", Syns: []string{""}}}},
		}}}}
		seg, _, err := plugin.New(Materialize(probe, nil))
		if err != nil {
			w.Cfg.BadSyn = false
			w.XOpts.ThesErrOK = false
			r.count("probe.syn.empty-synonym-rejected-by-builder")
			return w
		}
		seg.Close()
		r.count("probe.syn.unloadable-thesaurus-world")
	}
	return w
}

func newWorld(r *RunCtx, wantSyn, wantVec bool) *World {
	w := &World{r: r}
	c := r.ch
	w.Cfg = genCfg(c, wantSyn, wantVec)
	w.Cfg.IDSpace = 8 + c.Choose(40, "world.idspace")
	// tuning knobs (buggify): per-run constants
	zap.LegacyChunkMode = legacyModes[c.Choose(len(legacyModes), "knob.legacychunk")]
	zap.DefaultChunkMode = chunkModes[c.Choose(len(chunkModes), "knob.chunkmode")]
	if w.Cfg.Dense && c.Choose(4, "knob.densemode") != 0 {
		zap.DefaultChunkMode = []uint32{1025, 1026}[c.Choose(2, "knob.densemodev")]
	}
	zap.DefaultFileMergerBufferSize = mergeBufs[c.Choose(len(mergeBufs), "knob.mergebuf")]
	if c.Prob(1, 4, "knob.newbuf") {
		zap.NewSegmentBufferNumResultsBump = c.Choose(200, "knob.bump")
		zap.NewSegmentBufferNumResultsFactor = float64(c.Choose(4, "knob.f1")) / 2
		zap.NewSegmentBufferAvgBytesPerDocFactor = float64(c.Choose(4, "knob.f2")) / 2
	}
	w.XOpts.ExtraFields = []string{"nosuchfield"}
	for _, f := range w.Cfg.Fields {
		w.XOpts.ExtraFields = append(w.XOpts.ExtraFields, f.Name)
	}
	for _, f := range w.Cfg.SynFields {
		w.XOpts.Thesauri = append(w.XOpts.Thesauri, f.Name)
	}
	w.XOpts.Thesauri = append(w.XOpts.Thesauri, "nosuchthesaurus")
	for _, f := range w.Cfg.VecFields {
		w.XOpts.VecFields = append(w.XOpts.VecFields, f.Name)
	}
	for d := 2; d <= 4; d++ {
		for k := 0; k < 2; k++ {
			q := make([]float32, d)
			for j := range q {
				q[j] = float32((k*3+j*2)%5) - 1.5
			}
			w.Probes = append(w.Probes, q)
		}
	}
	w.XOpts.VecProbes = w.Probes
	r.ev("world fields=%d syn=%d vec=%d composite=%v chunk=%d legacy=%d mergebuf=%d",
		len(w.Cfg.Fields), len(w.Cfg.SynFields), len(w.Cfg.VecFields), w.Cfg.Composite,
		zap.DefaultChunkMode, zap.LegacyChunkMode, zap.DefaultFileMergerBufferSize)
	return w
}

var batchSizes = []int{0, 1, 1, 2, 2, 3, 3, 5, 8, 13, 20, 40}

func (w *World) genBatchSize() int {
	c := w.r.ch
	if w.Cfg.Many {
		return []int{0, 1, 2, 3, 5}[c.Choose(5, "batch.size")]
	}
	if w.Cfg.Dense && c.Bool("batch.dense") {
		return []int{1024, 1030, 1100, 1400, 2060, 2100}[c.Choose(6, "batch.denseN")]
	}
	den := w.LargeDen
	if den == 0 {
		den = 60
	}
	if c.Prob(1, den, "batch.large") {
		if c.Prob(1, 4, "batch.boundary") {
			// document counts at the doc-value / posting chunk boundaries
			return []int{1023, 1024, 1025, 2048, 255, 256, 257, 512}[c.Choose(8, "batch.boundaryN")]
		}
		if w.LargeDen != 0 && c.Bool("batch.verylarge") {
			// postings lists beyond 1024 hits: chunk modes 1025/1026 then depend on
			// the cardinality, before and after deletions
			return 1030 + c.Choose(900, "batch.largeN")
		}
		return 300 + c.Choose(1300, "batch.largeN")
	}
	return batchSizes[c.Choose(len(batchSizes), "batch.size")]
}

func (w *World) extract(seg segment.Segment, what string) *Canon {
	defer func() {
		if rec := recover(); rec != nil {
			if _, ok := rec.(violationPanic); ok {
				panic(rec)
			}
			st := stackString()
			w.r.fail("read-panic", panicSite(st), "reading %s panicked: %v\n%s", what, rec, st)
		}
	}()
	cn, err := Extract(seg, &w.XOpts)
	if err != nil {
		w.r.fail("read-error", "Extract", "reading %s failed: %v", what, err)
	}
	w.r.state(cn.Digest())
	return cn
}

// Build builds a segment from a batch spec through ZapPlugin.New.
func (w *World) Build(spec *BatchSpec, env *buildEnv) *SegH {
	r := w.r
	docs := Materialize(spec, env)
	seg, size, err := plugin.New(docs)
	if err != nil {
		r.fail("build-error", "New", "New failed on a legal batch (%s): %v", spec.summary(), err)
	}
	w.nseg++
	h := &SegH{Name: fmt.Sprintf("s%d", w.nseg), Seg: seg, Kind: "mem", Spec: spec, Mode: zap.DefaultChunkMode, Size: size,
		Roots: map[int]bool{w.nseg: true}}
	r.count("op.build")
	w.countSpecProbes(spec)
	if w.Cfg.Dense && len(spec.Docs) >= 1024 {
		r.count("probe.dense.batch>=1024")
	}
	return h
}

// countSpecProbes records which rare input shapes a built batch contained.
func (w *World) countSpecProbes(spec *BatchSpec) {
	r := w.r
	regularDV, compositeDV := false, false
	for i := range spec.Docs {
		d := &spec.Docs[i]
		for j := range d.Fields {
			f := &d.Fields[j]
			if f.Kind == 's' {
				if len(f.Syn) == 0 {
					r.count("probe.syn.empty-thesaurus")
				}
				for _, def := range f.Syn {
					if def.Term == "" {
						r.count("probe.syn.empty-term")
					}
				}
			} else if f.Opts.IncludeDocValues() {
				regularDV = true
			}
		}
		for j := range d.Composite {
			if d.Composite[j].Opts.IncludeDocValues() {
				compositeDV = true
			}
		}
	}
	if compositeDV && !regularDV {
		r.count("probe.dv.composite-only")
	}
}

func (w *World) Add(h *SegH) { w.Segs = append(w.Segs, h) }

// PersistOpen persists an in-memory segment and opens the file.
func (w *World) PersistOpen(h *SegH) *SegH {
	r := w.r
	us, ok := h.Seg.(segment.UnpersistedSegment)
	if !ok {
		r.fail("harness", "PersistOpen", "segment %s is not unpersisted", h.Name)
	}
	p := r.path("seg")
	if err := us.Persist(p); err != nil {
		r.fail("persist-error", "Persist", "Persist failed without any fault injected: %v", err)
	}
	seg, err := plugin.Open(p)
	if err != nil {
		r.fail("open-error", "Open", "Open of a persisted segment failed: %v", err)
	}
	w.nseg++
	r.count("op.persistopen")
	return &SegH{Name: fmt.Sprintf("s%d", w.nseg), Seg: seg, Kind: "mmap", Path: p, Spec: h.Spec, Canon: h.Canon, Depth: h.Depth, Mode: h.Mode, Roots: h.Roots}
}

func (w *World) CloseAll() {
	for _, h := range w.Segs {
		if h.Seg != nil {
			h.Seg.Close()
			h.Seg = nil
		}
	}
	engineQuiesce()
}

// ---------------------------------------------------------------------------
// drops

// genDrops draws a deletion bitmap for a segment of n documents. The returned
// kind is used for reach statistics.
func genDrops(c *Chooser, n uint64) (*roaring.Bitmap, string) {
	switch c.Choose(10, "drops.kind") {
	case 9:
		// several documents anywhere: enough to move a long postings list across
		// one of the 1024 marks
		b := roaring.New()
		k := 5 + c.Choose(40, "drops.several")
		for i := 0; i < k && n > 0; i++ {
			b.Add(uint32(c.Choose(int(n), "drops.severalbit")))
		}
		return b, "several"
	case 8:
		// the first one to three documents
		b := roaring.New()
		k := uint64(1 + 2*c.Choose(2, "drops.few"))
		for d := uint64(0); d < k && d < n; d++ {
			b.Add(uint32(d))
		}
		return b, "few"
	case 0:
		return nil, "nil"
	case 1:
		return roaring.New(), "empty"
	case 2:
		b := roaring.New()
		for d := uint64(0); d < n; d++ {
			b.Add(uint32(d))
		}
		return b, "all"
	case 3:
		b := roaring.New()
		if n > 0 {
			keep := uint64(c.Choose(int(n), "drops.keep"))
			for d := uint64(0); d < n; d++ {
				if d != keep {
					b.Add(uint32(d))
				}
			}
		}
		return b, "allbutone"
	case 4:
		b := roaring.New()
		if n > 0 {
			b.Add(uint32(c.Choose(int(n), "drops.one")))
		}
		return b, "one"
	default:
		b := roaring.New()
		den := 2 + c.Choose(4, "drops.den")
		for d := uint64(0); d < n; d++ {
			if c.Choose(den, "drops.bit") == 0 {
				b.Add(uint32(d))
			}
		}
		return b, "partial"
	}
}

// ---------------------------------------------------------------------------
// the Merged relation

type MergeParts struct {
	Maps, Stored, Postings, DocValues, Thesauri, Vectors bool
}

func dropped(b *roaring.Bitmap, d uint64) bool { return b != nil && b.Contains(uint32(d)) }

// checkMaps: survivors numbered consecutively in segment order, then document
// order; deleted documents map to the all-ones sentinel.
func (w *World) checkMaps(ins []*SegH, drops []*roaring.Bitmap, maps [][]uint64) uint64 {
	r := w.r
	var next uint64
	if len(maps) != len(ins) {
		// (also when nothing survives: the statement asks for one map per input
		// segment, sending every deleted document to the sentinel)
		r.fail("C05.maps", "Merge", "Merge returned %d maps for %d input segments", len(maps), len(ins))
	}
	for i, h := range ins {
		if uint64(len(maps[i])) != h.Canon.Count {
			r.fail("C05.maps", "Merge", "map of input %d has %d entries, segment has %d documents", i, len(maps[i]), h.Canon.Count)
		}
		for d := uint64(0); d < h.Canon.Count; d++ {
			if dropped(drops[i], d) {
				if maps[i][d] != math.MaxUint64 {
					r.fail("C05.maps", "Merge", "deleted document %d of input %d maps to %d, not the sentinel", d, i, maps[i][d])
				}
			} else {
				if maps[i][d] != next {
					r.fail("C05.maps", "Merge", "surviving document %d of input %d maps to %d, expected %d", d, i, maps[i][d], next)
				}
				next++
			}
		}
	}
	return next
}

func sortStoredByField(v []CStored) []CStored {
	if len(v) <= 1 {
		return v
	}
	out := append([]CStored(nil), v...)
	rest := out[1:]
	if out[0].Field != "_id" {
		rest = out
	}
	sort.SliceStable(rest, func(a, b int) bool { return rest[a].Field < rest[b].Field })
	return out
}

// expectedMerged computes, from the inputs' canonical answers, what the merged
// segment must answer.
func expectedMerged(ins []*SegH, drops []*roaring.Bitmap, maps [][]uint64, total uint64) *Canon {
	e := &Canon{Count: total, Terms: map[string][]CTerm{}, DV: map[string][][]string{}, Thes: map[string]*CThes{}, Vec: map[string]*CVecField{}}
	e.Stored = make([][]CStored, total)
	e.DocIDs = make([][]byte, total)
	fieldSet := map[string]bool{}
	termHits := map[string]map[string][]CHit{}
	thes := map[string]map[string][]CSynPair{}
	vecHits := map[string][][]CVecHit{}
	for i, h := range ins {
		cn := h.Canon
		for _, f := range cn.Fields {
			fieldSet[f] = true
		}
		if len(maps) == 0 {
			continue
		}
		m := maps[i]
		for d := uint64(0); d < cn.Count; d++ {
			if dropped(drops[i], d) {
				continue
			}
			e.Stored[m[d]] = cn.Stored[d]
			e.DocIDs[m[d]] = cn.DocIDs[d]
		}
		for f, terms := range cn.Terms {
			for _, t := range terms {
				for _, hit := range t.Hits {
					if dropped(drops[i], hit.Doc) {
						continue
					}
					if termHits[f] == nil {
						termHits[f] = map[string][]CHit{}
					}
					nh := hit
					nh.Doc = m[hit.Doc]
					termHits[f][t.Term] = append(termHits[f][t.Term], nh)
				}
			}
		}
		for f, perDoc := range cn.DV {
			for d, terms := range perDoc {
				if len(terms) == 0 || dropped(drops[i], uint64(d)) {
					continue
				}
				if e.DV[f] == nil {
					e.DV[f] = make([][]string, total)
				}
				e.DV[f][m[d]] = terms
			}
		}
		for n, ct := range cn.Thes {
			for _, k := range ct.Keys {
				for _, p := range ct.Pairs[k] {
					if dropped(drops[i], uint64(p.Doc)) {
						continue
					}
					if thes[n] == nil {
						thes[n] = map[string][]CSynPair{}
					}
					thes[n][k] = append(thes[n][k], CSynPair{Syn: p.Syn, Doc: uint32(m[p.Doc])})
				}
			}
		}
		for f, cv := range cn.Vec {
			if vecHits[f] == nil {
				vecHits[f] = make([][]CVecHit, len(cv.Results))
			}
			for q, res := range cv.Results {
				for _, hit := range res {
					if dropped(drops[i], hit.Doc) {
						continue
					}
					vecHits[f][q] = append(vecHits[f][q], CVecHit{Doc: m[hit.Doc], Score: hit.Score})
				}
			}
		}
	}
	e.Fields = []string{"_id"}
	rest := []string{}
	for f := range fieldSet {
		if f != "_id" {
			rest = append(rest, f)
		}
	}
	sort.Strings(rest)
	e.Fields = append(e.Fields, rest...)
	for f, tm := range termHits {
		ks := sortedKeys(tm)
		for _, k := range ks {
			hits := tm[k]
			sort.SliceStable(hits, func(a, b int) bool { return hits[a].Doc < hits[b].Doc })
			e.Terms[f] = append(e.Terms[f], CTerm{Term: k, Hits: hits})
		}
	}
	for n, tm := range thes {
		ct := &CThes{Pairs: map[string][]CSynPair{}}
		for _, k := range sortedKeys(tm) {
			ps := tm[k]
			sort.Slice(ps, func(a, b int) bool {
				if ps[a].Syn != ps[b].Syn {
					return ps[a].Syn < ps[b].Syn
				}
				return ps[a].Doc < ps[b].Doc
			})
			// each pair once
			out := ps[:0]
			for i, p := range ps {
				if i == 0 || p != ps[i-1] {
					out = append(out, p)
				}
			}
			ct.Keys = append(ct.Keys, k)
			ct.Pairs[k] = out
		}
		e.Thes[n] = ct
	}
	for f, rs := range vecHits {
		any := false
		cv := &CVecField{Results: rs}
		for q := range rs {
			sortVecHits(rs[q])
			// identical (doc,score) codes collapse in the result bitmap
			out := rs[q][:0]
			for i, h := range rs[q] {
				if i == 0 || h != rs[q][i-1] {
					out = append(out, h)
				}
			}
			rs[q] = out
			if len(out) > 0 {
				any = true
			}
		}
		if any {
			e.Vec[f] = cv
		}
	}
	return e
}

// checkMerged compares the merged segment's answers with the expectation.
func (w *World) checkMerged(out segment.Segment, outCanon *Canon, ins []*SegH, drops []*roaring.Bitmap, maps [][]uint64, total uint64, parts MergeParts) {
	r := w.r
	e := expectedMerged(ins, drops, maps, total)
	o := outCanon
	if parts.Maps {
		if o.Count != total {
			r.fail("C05.count", "merged", "merged Count=%d, survivors=%d", o.Count, total)
		}
		// "Fields is the union of the inputs' fields": compared as a set (the order
		// of the list is an implementation matter)
		if total > 0 && !eqStr(uniqSorted(o.Fields), uniqSorted(e.Fields)) {
			r.fail("C05.fields", "merged", "merged Fields=%q, expected the union of the inputs' fields %q", o.Fields, e.Fields)
		}
		if total > 0 && len(uniqSorted(o.Fields)) != len(o.Fields) {
			r.fail("C05.fields", "merged", "merged Fields=%q lists a field twice", o.Fields)
		}
	}
	if parts.Stored {
		if uint64(len(o.Stored)) != total {
			r.fail("C05.count", "merged", "merged segment has %d visitable documents, survivors=%d", len(o.Stored), total)
		}
		for d := uint64(0); d < total; d++ {
			if s := diffStored(sortStoredByField(e.Stored[d]), sortStoredByField(o.Stored[d])); s != "" {
				r.fail("C05.stored", "merged", "new doc %d: expected(from inputs) vs merged: %s", d, s)
			}
			if !bytes.Equal(e.DocIDs[d], o.DocIDs[d]) {
				r.fail("C05.docid", "merged", "DocID(%d): expected %q got %q", d, e.DocIDs[d], o.DocIDs[d])
			}
		}
		// DocNumbers for every id known to the inputs (present, deleted) and for absent ids
		idSet := map[string][]uint32{}
		for i, h := range ins {
			for d, id := range h.Canon.DocIDs {
				k := string(id)
				if _, ok := idSet[k]; !ok {
					idSet[k] = nil
				}
				if len(maps) > 0 && !dropped(drops[i], uint64(d)) {
					idSet[k] = append(idSet[k], uint32(maps[i][d]))
				}
			}
		}
		ids := sortedKeys(idSet)
		probeIDs := append([]string{"", "\x00", "d", "zzzzzz", "\xff\xff"}, ids...)
		for _, id := range probeIDs {
			bm, err := safeDocNumbers(out, []string{id})
			if err != nil {
				r.fail("C05.docnumbers", "merged", "DocNumbers(%q) on merged segment: %v", id, err)
			}
			want := roaring.BitmapOf(idSet[id]...)
			if !bm.Equals(want) {
				r.fail("C05.docnumbers", "merged", "DocNumbers(%q): got %v expected %v", id, bm.ToArray(), want.ToArray())
			}
		}
		if len(ids) > 1 {
			bm, err := safeDocNumbers(out, probeIDs)
			if err != nil {
				r.fail("C05.docnumbers", "merged", "DocNumbers(all ids) on merged segment: %v", err)
			}
			want := roaring.New()
			for _, v := range idSet {
				want.AddMany(v)
			}
			if !bm.Equals(want) {
				r.fail("C05.docnumbers", "merged", "DocNumbers(all %d ids): got %v expected %v", len(probeIDs), bm.ToArray(), want.ToArray())
			}
		}
	}
	if parts.Postings {
		if s := diffTerms(e.Terms, o.Terms, false); s != "" {
			r.fail("C06.postings", "merged", "expected(from inputs) vs merged: %s", s)
		}
	}
	if parts.DocValues {
		// the list of visitable doc-value fields of the merged segment: no field
		// that had no doc values in any input, and every field that still has a
		// doc value among the survivors (a doc-value field without any term left
		// may or may not be listed: zapx drops it, which loses nothing)
		inUnion := map[string]bool{}
		for _, h := range ins {
			for _, f := range h.Canon.DVFields {
				inUnion[f] = true
			}
		}
		listed := map[string]bool{}
		for _, f := range o.DVFields {
			listed[f] = true
			if !inUnion[f] {
				r.fail("C06.dvfields", "merged", "the merged segment lists %q among its doc-value fields (%q), no input does", f, o.DVFields)
			}
		}
		for f, docs := range e.DV {
			for _, terms := range docs {
				if len(terms) > 0 && !listed[f] {
					r.fail("C06.dvfields", "merged", "field %q has doc values among the survivors but the merged segment lists only %q", f, o.DVFields)
				}
			}
		}
		fields := map[string]bool{}
		for f := range e.DV {
			fields[f] = true
		}
		for f := range o.DV {
			fields[f] = true
		}
		for f := range fields {
			for d := uint64(0); d < total; d++ {
				var a, b []string
				if e.DV[f] != nil {
					a = e.DV[f][d]
				}
				if o.DV[f] != nil {
					b = o.DV[f][d]
				}
				if !eqStr(a, b) {
					r.fail("C06.docvalues", "merged", "doc values field %q new doc %d: expected %q got %q", f, d, a, b)
				}
			}
		}
	}
	if parts.Thesauri {
		if s := diffThes(e.Thes, o.Thes); s != "" {
			r.fail("C13.thesauri", "merged", "expected(from inputs) vs merged: %s", s)
		}
	}
	if parts.Vectors {
		ka, kb := sortedKeys(e.Vec), sortedKeys(o.Vec)
		if !eqStr(ka, kb) {
			r.fail("C15.fields", "merged", "vector fields with an index: expected %q got %q", ka, kb)
		}
		for _, f := range ka {
			ev, ov := e.Vec[f], o.Vec[f]
			// the vector count statistic: when no input loses a document, the merged
			// field must count exactly the inputs' vectors
			anyDrop := false
			var sum uint64
			for i, h := range ins {
				if drops[i] != nil && !drops[i].IsEmpty() {
					anyDrop = true
				}
				if cv := h.Canon.Vec[f]; cv != nil {
					sum += cv.NumVecs
				}
			}
			if !anyDrop && ov.NumVecs != sum {
				r.fail("C15.count", "merged", "vector field %q: merged segment counts %d vectors, inputs (nothing deleted) count %d", f, ov.NumVecs, sum)
			}
			if anyDrop && ov.NumVecs > sum {
				r.fail("C15.count", "merged", "vector field %q: merged segment counts %d vectors, more than its inputs (%d)", f, ov.NumVecs, sum)
			}
			for q := range ev.Results {
				if s := diffVecHits(ev.Results[q], ov.Results[q]); s != "" {
					r.fail("C15.search", "merged", "vector field %q probe %d: expected(from inputs) vs merged: %s", f, q, s)
				}
			}
		}
	}
}

func safeDocNumbers(seg segment.Segment, ids []string) (bm *roaring.Bitmap, err error) {
	defer func() {
		if rec := recover(); rec != nil {
			err = fmt.Errorf("panic: %v", rec)
		}
	}()
	return seg.DocNumbers(ids)
}

// ---------------------------------------------------------------------------
// footer (documented v16 layout, zap.md): the last 52 bytes are
// numDocs, storedIndexOffset, fieldsIndexOffset, sectionsIndexOffset,
// docValueOffset (uint64 BE each), chunkMode, version, CRC (uint32 BE each).

type Footer struct {
	NumDocs, Stored, FieldsIdx, SectionsIdx, DV uint64
	Chunk, Version, CRC                         uint32
}

const footerLen = 8*5 + 4*3

func parseFooter(b []byte) (f Footer, computedCRC uint32, err error) {
	if len(b) < footerLen {
		return f, 0, fmt.Errorf("file of %d bytes is shorter than a footer", len(b))
	}
	t := b[len(b)-footerLen:]
	f.NumDocs = binary.BigEndian.Uint64(t[0:])
	f.Stored = binary.BigEndian.Uint64(t[8:])
	f.FieldsIdx = binary.BigEndian.Uint64(t[16:])
	f.SectionsIdx = binary.BigEndian.Uint64(t[24:])
	f.DV = binary.BigEndian.Uint64(t[32:])
	f.Chunk = binary.BigEndian.Uint32(t[40:])
	f.Version = binary.BigEndian.Uint32(t[44:])
	f.CRC = binary.BigEndian.Uint32(t[48:])
	computedCRC = crc32.ChecksumIEEE(b[:len(b)-4])
	return f, computedCRC, nil
}

// checkFile verifies the footer clauses of C04 on a complete file.
func (w *World) checkFooter(oracle string, data []byte, wantDocs uint64, wantMode uint32) Footer {
	r := w.r
	f, crc, err := parseFooter(data)
	if err != nil {
		r.fail(oracle+".footer", "file", "%v", err)
	}
	if f.NumDocs != wantDocs {
		r.fail(oracle+".footer", "file", "footer numDocs=%d, segment Count=%d", f.NumDocs, wantDocs)
	}
	if f.Chunk != wantMode {
		r.fail(oracle+".footer", "file", "footer chunkMode=%d, built with %d", f.Chunk, wantMode)
	}
	if f.Version != 16 {
		r.fail(oracle+".footer", "file", "footer version=%d, want 16", f.Version)
	}
	if f.CRC != crc {
		r.fail(oracle+".footer", "file", "footer CRC=%08x, CRC-32 of preceding bytes=%08x", f.CRC, crc)
	}
	return f
}

func fileExists(p string) bool {
	_, err := os.Lstat(p)
	return err == nil
}
