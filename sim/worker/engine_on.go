//go:build vectors

package main

// C19: every engine call of a build or merge scenario is made to fail once.

import (
	"fmt"
	"os"

	faiss "github.com/blevesearch/go-faiss"
	zap "github.com/blevesearch/zapx/v16"
)

func engineFaults(r *RunCtx) {
	c := r.ch
	w := newWorld(r, c.Choose(4, "cfg.syn") == 0, true)
	defer w.CloseAll()
	thorough := r.Tier == "thorough"
	budget := 10
	if thorough {
		budget = 64
	}
	vecOnly := func(cn *Canon) *Canon { return &Canon{Count: cn.Count, Vec: cn.Vec} }
	vparts := CmpParts{Vectors: true}
	if c.Bool("eng.build") {
		// build scenario; now and then a field with >= 1000 vectors so that the
		// IVF-only calls (SetDirectMap, Train) occur
		n := []int{1, 2, 3, 5, 8, 13}[c.Choose(6, "eng.batch")]
		if c.Prob(1, 12, "eng.ivf") {
			n = 1000 + c.Choose(200, "eng.ivfN")
			w.Cfg.Fields = w.Cfg.Fields[:1]
			w.Cfg.MaxToks = 1
		}
		spec := genBatch(c, w.Cfg, n, n*2+8)
		if c.Prob(1, 40, "eng.manyvecs") {
			// several thousand vectors in one field: more than any internal batching
			// of the engine calls by the thousand(s) takes in one go
			spec = genVectorBoundaryBatch(c, w.Cfg, 4097+c.Choose(1200, "eng.manyvecsN"))
			r.count("probe.vec.field>4096vectors")
		}
		faiss.ResetCounters()
		refSeg, _, err := plugin.New(Materialize(spec, nil))
		if err != nil {
			r.fail("build-error", "New", "fault-free build failed: %v", err)
		}
		seq := faiss.OpSequence()
		ref := vecOnly(w.extract(refSeg, "fault-free build"))
		refSeg.Close()
		engineQuiesce()
		live0 := engineLive()
		dc0 := faiss.Snapshot().DoubleClosed
		for _, e := range pickCalls(c, len(seq), budget) {
			flushPools()
			fired := false
			ne := 0
			faiss.Hook = func(op string, n int) error {
				ne++
				if ne == e {
					fired = true
					return errEngine
				}
				return nil
			}
			seg, _, err := plugin.New(Materialize(spec, nil))
			faiss.Hook = nil
			what := fmt.Sprintf("New(%s) with engine call %d of %d (%s) failing", spec.summary(), e, len(seq), seq[e-1])
			if fired {
				r.count("fault.engine." + seq[e-1])
				r.NonTrivial = true
			}
			if err == nil {
				// no error: then nothing may be missing
				cn := vecOnly(w.extract(seg, what))
				if s := Same(ref, cn, vparts); s != "" {
					r.fail("C19.silent-loss", "New", "%s returned no error, but the segment's vector content differs from the fault-free build: %s", what, s)
				}
			}
			if seg != nil {
				seg.Close()
			}
			engineQuiesce()
			if l := engineLive(); l > live0 {
				r.fail("C19.engine-leak", "New", "%s: %d vector indexes are still alive afterwards (before: %d)", what, l, live0)
			}
			if dc := faiss.Snapshot().DoubleClosed; dc != dc0 {
				r.fail("C19.double-close", "New", "%s: an index was closed twice", what)
			}
			r.ev("%s -> err=%v", what, err != nil)
		}
		r.count("op.build")
	} else {
		w.smallWorld(len(w.Cfg.SynFields) > 0, true)
		if c.Prob(1, 40, "eng.manyvecs") {
			h := w.Build(genVectorBoundaryBatch(c, w.Cfg, 4097+c.Choose(1200, "eng.manyvecsN")), nil)
			h.Canon = w.extract(h.Seg, "built segment "+h.Name)
			w.Add(h)
			r.count("probe.vec.field>4096vectors")
		}
		sc := w.genMergeScenario()
		faiss.ResetCounters()
		ref := w.referenceMerge(sc)
		seq := ref.eng
		engineQuiesce()
		live0 := engineLive()
		dc0 := faiss.Snapshot().DoubleClosed
		for _, e := range pickCalls(c, len(seq), budget) {
			p := r.path("engfault")
			prefill(r, p, int(ref.size), nil)
			fired := false
			ne := 0
			faiss.Hook = func(op string, n int) error {
				ne++
				if ne == e {
					fired = true
					return errEngine
				}
				return nil
			}
			maps, size, err := plugin.Merge(sc.segs, sc.drops, p, nil, &statsReporter{})
			faiss.Hook = nil
			what := fmt.Sprintf("Merge(%s) with engine call %d of %d (%s) failing", sc.desc, e, len(seq), seq[e-1])
			if fired {
				r.count("fault.engine." + seq[e-1])
				r.NonTrivial = true
			}
			if err != nil {
				if fileExists(p) {
					r.fail("C19.file-left-behind", "Merge", "%s returned %v but left a file behind", what, err)
				}
			} else {
				w.checkCompleteMerge("C19.silent-loss", what, p, maps, size, ref)
			}
			os.Remove(p)
			engineQuiesce()
			if l := engineLive(); l > live0 {
				r.fail("C19.engine-leak", "Merge", "%s: %d vector indexes are still alive afterwards (before: %d)", what, l, live0)
			}
			if dc := faiss.Snapshot().DoubleClosed; dc != dc0 {
				r.fail("C19.double-close", "Merge", "%s: an index was closed twice", what)
			}
			r.ev("%s -> err=%v", what, err != nil)
		}
		r.count("op.merge")
	}
	_ = zap.Version
	r.Sample["ops"] = r.Events
}

// pickCalls returns the 1-based ordinals of the engine calls to fail: all of
// them when they fit the budget, else a seeded sample.
func pickCalls(c *Chooser, n, budget int) []int {
	var out []int
	if n <= budget {
		for e := 1; e <= n; e++ {
			out = append(out, e)
		}
		return out
	}
	seen := map[int]bool{}
	for len(out) < budget {
		e := 1 + c.Choose(n, "eng.call")
		if !seen[e] {
			seen[e] = true
			out = append(out, e)
		}
	}
	return out
}
