package main

import (
	"fmt"
	"os"
	"regexp"
	"runtime"
	"strings"
	"time"
)

// Hang monitor. A run normally takes milliseconds. When one takes longer than
// hangAfter, the monitor looks for a goroutine that is waiting for a sync.Mutex
// or sync.RWMutex from inside zapx (and is not parked in the simulator's own
// scheduler). If the same goroutine is still waiting at the same place
// hangConfirm later - well beyond the scheduler's own recovery from a task
// parked while holding a lock (3 s) - the lock will never be released: the run
// is reported on stderr as "HANG:" with the stacks, and the process exits. The
// supervisor turns that into a violation of class hang@<zapx function>; a run
// that is merely slow is never reported (it has no such goroutine).
const (
	hangAfter   = 40 * time.Second
	hangConfirm = 20 * time.Second
	hangExit    = 67
)

var goroutineHdr = regexp.MustCompile(`^goroutine (\d+) \[([^\],]+)`)

// lockWaitersInZapx returns goroutine id -> (innermost zapx function, stack) for
// goroutines waiting for a lock inside zapx.
func lockWaitersInZapx() map[string][2]string {
	buf := make([]byte, 1<<22)
	buf = buf[:runtime.Stack(buf, true)]
	out := map[string][2]string{}
	for _, blk := range strings.Split(string(buf), "\n\n") {
		m := goroutineHdr.FindStringSubmatch(blk)
		if m == nil {
			continue
		}
		reason := m[2]
		if !(strings.HasPrefix(reason, "sync.Mutex") || strings.HasPrefix(reason, "sync.RWMutex") || reason == "semacquire") {
			continue
		}
		// the lock is taken by zapx itself: the innermost frame outside runtime and
		// sync belongs to zapx, not to the harness (a task parked by the scheduler
		// has harness frames innermost)
		zi, mi := strings.Index(blk, "\ngithub.com/blevesearch/zapx/v16."), strings.Index(blk, "\nmain.")
		if zi < 0 || (mi >= 0 && mi < zi) {
			continue
		}
		out[m[1]] = [2]string{panicSite(blk), blk}
	}
	return out
}

// startHangMonitor watches one run; the returned function ends the watch.
func startHangMonitor(run int) func() {
	stop := make(chan struct{})
	go func() {
		wait := hangAfter
		for {
			select {
			case <-stop:
				return
			case <-time.After(wait):
			}
			wait = 10 * time.Second
			first := lockWaitersInZapx()
			if len(first) == 0 {
				continue
			}
			select {
			case <-stop:
				return
			case <-time.After(hangConfirm):
			}
			second := lockWaitersInZapx()
			for id, a := range first {
				if b, ok := second[id]; ok && a[0] == b[0] {
					fmt.Fprintf(os.Stderr, "HANG: run %d: a goroutine has been waiting for a lock inside zapx for more than %v; nothing will release it\nblocked in github.com/blevesearch/zapx/v16.%s\n%s\n", run, hangConfirm, b[0], b[1])
					os.Exit(hangExit)
				}
			}
		}
	}()
	return func() { close(stop) }
}
