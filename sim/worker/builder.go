package main

// builder driver (C10): builder tasks turn seeded batches into segments
// through the pooled builder, interleaved at the document / field accessor
// callbacks inside ZapPlugin.New and at the pool hooks, with rejected batches,
// failing engine calls and pool flushes in the history. Every successful
// build must equal the same batch built in a pristine builder state.

import (
	"bytes"
	"errors"
	"fmt"

	index "github.com/blevesearch/bleve_index_api"
	segment "github.com/blevesearch/scorch_segment_api/v2"
	zap "github.com/blevesearch/zapx/v16"
)

func init() {
	drivers["C10"] = builders
}

type buildJob struct {
	spec     *BatchSpec
	mode     uint32
	rejectAt int // reject the k-th validated field (0: never)
	engFail  int // fail the k-th engine call of this build (0: never)
	stride   int // yield at every stride-th accessor callback
	flush    bool
	// results (task-private)
	seg   segment.Segment
	size  uint64
	err   error
	calls int
	nval  int
	neng  int
}

var errRejected = errors.New("verif: field rejected by validator")
var errEngine = errors.New("verif: injected engine failure")

func (w *World) genJob(c *Chooser, cfgs []*GenCfg) *buildJob {
	g := cfgs[c.Choose(len(cfgs), "job.cfg")]
	j := &buildJob{}
	n := w.genBatchSize()
	if c.Prob(1, 5, "job.empty") {
		n = 0
	}
	j.spec = genBatch(c, g, n, 8+n*2)
	j.mode = chunkModes[c.Choose(len(chunkModes), "job.mode")]
	if c.Prob(1, 6, "job.reject") {
		j.rejectAt = 1 + c.Choose(12, "job.rejectAt")
	}
	if vectorsBuild && c.Prob(1, 6, "job.engfail") {
		j.engFail = 1 + c.Choose(3, "job.engFailAt")
	}
	j.stride = 1 + c.Skewed(40, "job.stride")
	j.flush = c.Prob(1, 8, "job.flush")
	return j
}

type pristine struct {
	canon *Canon
	size  uint64
	bw    uint64
	bytes []byte // nil when the batch is not byte-deterministic on this tree
	err   error
}

func (w *World) pristineBuild(j *buildJob) *pristine {
	var p pristine
	for rep := 0; rep < 2; rep++ {
		flushPools()
		zap.DefaultChunkMode = j.mode
		seg, size, err := plugin.New(Materialize(j.spec, nil))
		if err != nil {
			p.err = err
			return &p
		}
		var buf bytes.Buffer
		if _, err := seg.(*zap.SegmentBase).WriteTo(&buf); err != nil {
			p.err = err
			return &p
		}
		if rep == 0 {
			p.canon = w.extract(seg, "pristine build")
			p.size = size
			p.bw = seg.BytesWritten()
			p.bytes = buf.Bytes()
		} else if !bytes.Equal(p.bytes, buf.Bytes()) {
			p.bytes = nil // map iteration order inside zapx: compare answers only
		}
		seg.Close()
	}
	// zapx persists its sections in Go map iteration order: as soon as two
	// sections write something (synonym or vector content), offsets - and with
	// them varint lengths, the size and the bytes-written statistic - differ from
	// build to build. Bytes, size and statistic are therefore compared only for
	// batches with plain content that also came out byte-identical twice.
	for i := range j.spec.Docs {
		for k := range j.spec.Docs[i].Fields {
			if kind := j.spec.Docs[i].Fields[k].Kind; kind == 's' || kind == 'v' {
				p.bytes = nil
			}
		}
	}
	engineQuiesce()
	return &p
}

func builders(r *RunCtx) {
	c := r.ch
	w := newWorld(r, true, vectorsBuild)
	// two shapes of batches: the world's (many fields, synonyms, vectors) and a small plain one
	small := genCfg(c, false, false)
	small.Fields = small.Fields[:1+c.Choose(len(small.Fields), "small.nfields")]
	if c.Bool("small.rename") {
		for i := range small.Fields {
			small.Fields[i].Name = "g" + small.Fields[i].Name
		}
	}
	cfgs := []*GenCfg{w.Cfg, small, small}
	w.XOpts.ExtraFields = append(w.XOpts.ExtraFields, "gf0", "gf1", "gf2")

	nt := 1 + c.Choose(4, "b.ntasks")
	jobs := make([][]*buildJob, nt)
	total := 0
	for t := range jobs {
		n := 1 + c.Choose(5, "b.njobs")
		for k := 0; k < n; k++ {
			jobs[t] = append(jobs[t], w.genJob(c, cfgs))
			total++
		}
	}
	if r.tsan {
		// a task writing the global chunk mode while another build reads it would
		// be a race of the harness's own making: one mode for the whole run
		for t := range jobs {
			for _, j := range jobs[t] {
				j.mode = zap.DefaultChunkMode
			}
		}
	}
	// references first: each batch built in a pristine builder (pools flushed, single task)
	refs := make([][]*pristine, nt)
	for t := range jobs {
		for _, j := range jobs[t] {
			refs[t] = append(refs[t], w.pristineBuild(j))
		}
	}
	flushPools()

	sim := newSim(c, r.tsan, 6000)
	cur := make([]*buildJob, nt)
	var mon *poolMonitor
	if !r.tsan {
		mon = newPoolMonitor(sim)
		zap.VerifPoolGet = mon.get
		zap.VerifPoolPut = mon.put
	}
	zap.VerifYield = func(site string) { sim.Yield("zapx:" + site) }
	zap.ValidateDocFields = func(f index.Field) error {
		t := sim.Current()
		if t == nil {
			return nil
		}
		j := cur[t.id]
		j.nval++
		if j.rejectAt != 0 && j.nval == j.rejectAt {
			return errRejected
		}
		return nil
	}
	setEngineHook(func(op string, n int) error {
		t := sim.Current()
		if t == nil {
			return nil
		}
		j := cur[t.id]
		j.neng++
		if j.engFail != 0 && j.neng == j.engFail {
			return errEngine
		}
		return nil
	})
	for t := 0; t < nt; t++ {
		t := t
		sim.Spawn(fmt.Sprintf("builder%d", t), func(tk *Task) {
			for k, j := range jobs[t] {
				cur[t] = j
				env := &buildEnv{}
				env.cb = func(site string) {
					j.calls++
					if j.calls%j.stride == 0 {
						sim.Yield(site)
					}
				}
				if j.flush && !r.tsan {
					flushPools()
				}
				tk.frames = append(tk.frames, k+1)
				docs := Materialize(j.spec, env)
				if !r.tsan {
					zap.DefaultChunkMode = j.mode
				}
				j.seg, j.size, j.err = plugin.New(docs)
				tk.frames = tk.frames[:len(tk.frames)-1]
				sim.Yield("betweenBuilds")
			}
		})
	}
	sim.Run()
	zap.VerifYield, zap.VerifPoolGet, zap.VerifPoolPut = nil, nil, nil
	zap.ValidateDocFields = defaultValidate
	resetEngineHooks()
	r.countN("sim.steps", sim.steps)
	r.countN("probe.sched.yield-under-lock-recoveries", sim.lockStalls)
	r.countN("sim.switches", sim.switches)
	for site, n := range sim.siteCounts {
		r.countN("probe.yield."+site, n)
	}
	r.sched(sim)
	if mon != nil {
		r.countN("probe.pool.builder-reused", len(mon.lastPut))
		r.countN("probe.pool.object-reused-across-tasks", mon.crossTask)
		if len(mon.lastPut) > 0 && total > 1 {
			r.NonTrivial = true
		}
	}
	if sim.switches > nt {
		r.NonTrivial = true
	}
	for t, tk := range sim.tasks {
		if tk.panicV != nil {
			r.fail("panic", panicSite(tk.panicSt), "builder task %d panicked: %v\n%s", t, tk.panicV, tk.panicSt)
		}
	}
	if mon != nil && mon.viol != "" {
		r.fail("C10.pool-ownership", "sync.Pool", "%s", mon.viol)
	}
	for t := range jobs {
		for k, j := range jobs[t] {
			ref := refs[t][k]
			desc := fmt.Sprintf("task %d build %d (%s, mode=%d, rejectAt=%d, engFail=%d)", t, k, j.spec.summary(), j.mode, j.rejectAt, j.engFail)
			r.ev("%s -> err=%v", desc, j.err != nil)
			rejected := j.rejectAt != 0 && j.nval >= j.rejectAt
			engFailed := j.engFail != 0 && j.neng >= j.engFail
			if rejected {
				r.count("fault.build.rejected")
				if j.err == nil {
					r.fail("C10.failed-build", "New", "%s: the field validator rejected field #%d but New returned no error", desc, j.rejectAt)
				}
				continue
			}
			if engFailed {
				r.count("fault.build.enginefailure")
				if j.seg != nil {
					j.seg.Close()
				}
				continue // whether this surfaces as an error is C19's question
			}
			if ref.err != nil {
				r.fail("build-error", "New", "pristine build of a legal batch failed: %v", ref.err)
			}
			if j.err != nil {
				r.fail("C10.history", "New", "%s: New failed (%v) although the same batch builds in a pristine builder", desc, j.err)
			}
			cn := w.extract(j.seg, desc)
			if s := Same(ref.canon, cn, cmpAll); s != "" {
				r.fail("C10.history", "New", "%s: differs from the same batch built in a pristine builder: %s", desc, s)
			}
			if ref.bytes != nil {
				if j.size != ref.size {
					r.fail("C10.history", "New.size", "%s: New reported size %d, pristine build %d", desc, j.size, ref.size)
				}
				if bw := j.seg.BytesWritten(); bw != ref.bw {
					r.fail("C10.history", "BytesWritten", "%s: BytesWritten=%d, pristine build %d", desc, bw, ref.bw)
				}
				// (the bytes themselves are not compared: the per-field section table is
				// written in Go map iteration order, so equal builds differ bytewise)
				r.count("probe.build.size-compared")
			} else if ref.size > 0 {
				// two pristine builds of this batch already differ bytewise (map-ordered
				// sections): sizes then vary by some tens of bytes, not by more. A build
				// that is larger than that carries something the batch did not contain.
				slack := 64 + ref.size/20
				if j.size > ref.size+slack || j.size+slack < ref.size {
					r.fail("C10.history", "New.size", "%s: New reported size %d, the same batch in a pristine builder %d (sizes of equal builds differ by tens of bytes only)", desc, j.size, ref.size)
				}
				r.count("probe.build.size-compared-with-slack")
			}
			j.seg.Close()
			r.count("op.build")
		}
	}
	engineQuiesce()
	r.Sample["tasks"] = nt
	r.Sample["ops"] = r.Events
}
