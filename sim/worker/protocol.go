package main

// protocol driver: the one-client, fault-free configuration of the reader
// workload. The simulator contributes the operation history on reused objects
// (visit states, preallocated postings lists / iterators, the dictionary
// iterator's scratch list) over segments of every provenance. Decides the
// history part of C03, C07 and C08; the reference answers are fresh-object
// calls of the real code.

import (
	"fmt"
	"math"
	"sort"

	"github.com/RoaringBitmap/roaring/v2"
	segment "github.com/blevesearch/scorch_segment_api/v2"
	"github.com/blevesearch/vellum"
	"github.com/blevesearch/vellum/levenshtein"
	"github.com/blevesearch/vellum/regexp"
	zap "github.com/blevesearch/zapx/v16"
)

func init() {
	drivers["C03"] = docValuesProtocol
	drivers["C07"] = postingsProtocol
	drivers["C08"] = dictionaryProtocol
}

// populate fills the world with segments of every provenance: built in
// memory, persisted and re-opened, merged once, merged again.
func (w *World) populate(minSegs int) {
	r, c := w.r, w.r.ch
	nb := minSegs + c.Choose(3, "pop.nbuilds")
	for i := 0; i < nb; i++ {
		if i > 0 && c.Prob(1, 3, "pop.chunkmode") {
			zap.DefaultChunkMode = chunkModes[c.Choose(len(chunkModes), "pop.mode")]
		}
		spec := genBatch(c, w.Cfg, w.genBatchSize(), w.Cfg.IDSpace)
		h := w.Build(spec, nil)
		h.Canon = w.extract(h.Seg, "built segment "+h.Name)
		if c.Bool("pop.persist") {
			h2 := w.PersistOpen(h)
			h.Seg.Close()
			h = h2
			h.Canon = w.extract(h.Seg, "opened segment "+h.Name)
		}
		w.Add(h)
		r.ev("segment %s %s: %s", h.Name, h.Kind, spec.summary())
	}
	nm := c.Choose(4, "pop.nmerges")
	for i := 0; i < nm; i++ {
		n := 1 + c.Skewed(3, "pop.merge.n")
		if n > len(w.Segs) {
			n = len(w.Segs)
		}
		var ins []*SegH
		start := c.Choose(len(w.Segs), "pop.merge.start")
		for k := 0; k < n; k++ {
			cand := w.Segs[(start+k)%len(w.Segs)]
			if len(w.Cfg.VecFields) > 0 && sharesRoot(ins, cand) {
				continue
			}
			ins = append(ins, cand)
		}
		drops := make([]*roaring.Bitmap, len(ins))
		for k, h := range ins {
			if c.Bool("pop.merge.drop") {
				drops[k], _ = genDrops(c, h.Canon.Count)
			}
		}
		if h := w.mergeOnce(ins, drops, w.PopParts); h != nil {
			w.Add(h)
		}
	}
	r.NonTrivial = false
}

func (w *World) pickSeg(label string) *SegH {
	live := w.Segs[:0:0]
	for _, h := range w.Segs {
		if h.Seg != nil {
			live = append(live, h)
		}
	}
	return live[w.r.ch.Choose(len(live), label)]
}

func (w *World) pickField(h *SegH, label string) string {
	fs := append([]string{"nosuchfield"}, h.Canon.Fields...)
	for _, f := range w.Cfg.Fields {
		fs = append(fs, f.Name)
	}
	return fs[w.r.ch.Choose(len(fs), label)]
}

func findTerm(terms []CTerm, t string) *CTerm {
	i := sort.Search(len(terms), func(i int) bool { return terms[i].Term >= t })
	if i < len(terms) && terms[i].Term == t {
		return &terms[i]
	}
	return nil
}

// ---------------------------------------------------------------------------
// C08

type exactAutomaton struct{ s []byte }

func (a *exactAutomaton) Start() int { return 0 }
func (a *exactAutomaton) IsMatch(s int) bool {
	return s == len(a.s)
}
func (a *exactAutomaton) CanMatch(s int) bool        { return s >= 0 && s <= len(a.s) }
func (a *exactAutomaton) WillAlwaysMatch(s int) bool { return false }
func (a *exactAutomaton) Accept(s int, b byte) int {
	if s >= 0 && s < len(a.s) && a.s[s] == b {
		return s + 1
	}
	return -1 - len(a.s)
}

type prefixAutomaton struct{ p []byte }

func (a *prefixAutomaton) Start() int                 { return 0 }
func (a *prefixAutomaton) IsMatch(s int) bool         { return s == len(a.p) }
func (a *prefixAutomaton) CanMatch(s int) bool        { return s >= 0 }
func (a *prefixAutomaton) WillAlwaysMatch(s int) bool { return s == len(a.p) }
func (a *prefixAutomaton) Accept(s int, b byte) int {
	if s == len(a.p) {
		return s
	}
	if s >= 0 && a.p[s] == b {
		return s + 1
	}
	return -1
}

type neverAutomaton struct{}

func (neverAutomaton) Start() int               { return 0 }
func (neverAutomaton) IsMatch(int) bool         { return false }
func (neverAutomaton) CanMatch(int) bool        { return false }
func (neverAutomaton) WillAlwaysMatch(int) bool { return false }
func (neverAutomaton) Accept(int, byte) int     { return 0 }

func genAutomaton(c *Chooser, terms []CTerm) (segment.Automaton, string) {
	someTerm := func() string {
		if len(terms) > 0 && c.Choose(4, "aut.existing") != 0 {
			return terms[c.Choose(len(terms), "aut.term")].Term
		}
		return genTerm(c, true)
	}
	switch c.Choose(8, "aut.kind") {
	case 0:
		return nil, "nil"
	case 1:
		return &vellum.AlwaysMatch{}, "all"
	case 2:
		t := someTerm()
		return &exactAutomaton{[]byte(t)}, fmt.Sprintf("exact(%q)", t)
	case 3:
		t := someTerm()
		if len(t) > 1 {
			t = t[:1+c.Choose(len(t)-1, "aut.prefixlen")]
			for len(t) > 0 && t[len(t)-1]&0xC0 == 0x80 {
				t = t[:len(t)-1]
			}
		}
		return &prefixAutomaton{[]byte(t)}, fmt.Sprintf("prefix(%q)", t)
	case 4:
		pats := []string{"a.*", ".*b", "[a-c]+", "(ab|ba)+", ".", "..", ".*z.*", "[^a]*", "d[0-9a-z]*", "é.*"}
		p := pats[c.Choose(len(pats), "aut.regexp")]
		re, err := regexp.New(p)
		if err != nil {
			return neverAutomaton{}, "never"
		}
		return re, fmt.Sprintf("regexp(%q)", p)
	case 5, 6:
		t := someTerm()
		d := uint8(1 + c.Choose(2, "aut.dist"))
		lab, err := levenshtein.NewLevenshteinAutomatonBuilder(d, c.Bool("aut.transp"))
		if err != nil {
			return neverAutomaton{}, "never"
		}
		dfa, err := lab.BuildDfa(t, d)
		if err != nil {
			return neverAutomaton{}, "never"
		}
		return dfa, fmt.Sprintf("levenshtein(%q,%d)", t, d)
	default:
		return neverAutomaton{}, "never"
	}
}

// genBound draws one range bound relative to the existing terms: absent, equal
// to a term, between two terms, below all, above all.
func genBound(c *Chooser, terms []CTerm, label string) []byte {
	switch c.Choose(6, label) {
	case 0, 1:
		return nil
	case 2:
		if len(terms) == 0 {
			return []byte("a")
		}
		return []byte(terms[c.Choose(len(terms), label+".eq")].Term)
	case 3:
		if len(terms) == 0 {
			return []byte("b")
		}
		t := terms[c.Choose(len(terms), label+".after")].Term
		return append([]byte(t), 0)
	case 4:
		// below every non-empty term. An empty, non-nil END bound is not a
		// well-formed range (vellum does not read it as "nothing below the
		// empty key"), so it is not generated.
		if label == "dict.end" {
			return []byte{0}
		}
		return []byte{}
	default:
		return []byte("\xf8\xff")
	}
}

func automatonAccepts(a segment.Automaton, term string) bool {
	if a == nil {
		return true
	}
	st := a.Start()
	for i := 0; i < len(term); i++ {
		if !a.CanMatch(st) {
			return false
		}
		st = a.Accept(st, term[i])
	}
	return a.IsMatch(st)
}

func dictionaryProtocol(r *RunCtx) {
	c := r.ch
	w := newWorld(r, c.Choose(4, "cfg.syn") == 0, false)
	defer w.CloseAll()
	w.PopParts = MergeParts{Postings: true}
	w.populate(1)
	// "exactly those terms of the field": for a built (or built and re-opened)
	// segment the terms of a field are the ones its batch has in that field - in
	// any occurrence of the field in a document, composite field included - and
	// the count of a term is the number of documents that have it. This is the one
	// clause checked against the input itself; everything else in this driver is
	// relative to the segment's own canonical answers.
	for _, h := range w.Segs {
		if h.Depth != 0 || h.Spec == nil {
			continue
		}
		want := map[string]map[string]map[int]bool{}
		add := func(f *FieldSpec, d int) {
			if !f.Opts.IsIndexed() || (f.Kind != 't' && f.Kind != 'g' && f.Kind != 'c') {
				return
			}
			for _, t := range f.Toks {
				if want[f.Name] == nil {
					want[f.Name] = map[string]map[int]bool{}
				}
				if want[f.Name][t.Term] == nil {
					want[f.Name][t.Term] = map[int]bool{}
				}
				want[f.Name][t.Term][d] = true
			}
		}
		for d := range h.Spec.Docs {
			doc := &h.Spec.Docs[d]
			for j := range doc.Fields {
				add(&doc.Fields[j], d)
			}
			for j := range doc.Composite {
				add(&doc.Composite[j], d)
			}
		}
		fields := map[string]bool{}
		for f := range want {
			fields[f] = true
		}
		for f := range h.Canon.Terms {
			fields[f] = true
		}
		for f := range fields {
			var wl []string
			for t := range want[f] {
				wl = append(wl, t)
			}
			sort.Strings(wl)
			got := h.Canon.Terms[f]
			if !eqStr(wl, termNames(got)) {
				r.fail("C08.batch-terms", "Dictionary", "%s(%s) field %q: the dictionary holds %q, the batch has %q in that field", h.Name, h.Kind, f, termNames(got), wl)
			}
			for i := range got {
				if n := len(want[f][got[i].Term]); uint64(n) != got[i].Count || n != len(got[i].Hits) {
					r.fail("C08.batch-terms", "Dictionary", "%s(%s) field %q term %q: Count=%d, postings list of %d documents, the batch has it in %d documents", h.Name, h.Kind, f, got[i].Term, got[i].Count, len(got[i].Hits), n)
				}
			}
		}
		r.count("probe.dict.checked-against-batch")
	}
	// The iterations run on COLD twin instances (second Open of the file, or a
	// rebuild of the batch): the lazily filled per-field dictionary cache of the
	// instance the reference answers were taken from is already complete, in
	// sorted field order; on a cold instance the order of first accesses is the
	// seeded history.
	for _, h := range w.Segs {
		if h.Seg == nil {
			continue
		}
		cold := w.twinOf(h)
		h.Seg.Close()
		h.Seg = cold
	}
	n := 4 + c.Choose(12, "dict.niter")
	if w.Cfg.Many {
		n += 40
	}
	// iterators that have reported the end stay with their caller: whatever
	// happens afterwards (new iterators, of any field or segment), a further Next
	// on them still reports the end
	type doneIter struct {
		itr   segment.DictionaryIterator
		where string
	}
	var finished []doneIter
	checkFinished := func(when string) {
		for _, d := range finished {
			e, err := d.itr.Next()
			if err != nil || e != nil {
				t := "<nil>"
				if e != nil {
					t = e.Term
				}
				r.fail("C08.terms", "DictionaryIterator.Next", "an exhausted iterator (%s) asked again %s returned entry %q, err %v instead of the end", d.where, when, t, err)
			}
		}
	}
	for it := 0; it < n; it++ {
		h := w.pickSeg("dict.seg")
		field := w.pickField(h, "dict.field")
		ref := h.Canon.Terms[field]
		dict, err := h.Seg.Dictionary(field)
		if err != nil {
			r.fail("C08.error", "Dictionary", "Dictionary(%q) on %s: %v", field, h.Name, err)
		}
		a, adesc := genAutomaton(c, ref)
		start := genBound(c, ref, "dict.start")
		end := genBound(c, ref, "dict.end")
		if end != nil && len(end) == 0 {
			end = []byte{0} // see genBound: an empty non-nil end bound is not well-formed
		}
		if start != nil && end != nil && string(start) >= string(end) {
			if c.Bool("dict.swap") {
				start, end = end, start
			}
			if string(start) >= string(end) {
				end = nil
			}
		}
		var want []CTerm
		for i := range ref {
			t := ref[i].Term
			if start != nil && t < string(start) {
				continue
			}
			if end != nil && t >= string(end) {
				continue
			}
			if automatonAccepts(a, t) {
				want = append(want, ref[i])
			}
		}
		itr := dict.AutomatonIterator(a, start, end)
		// sometimes a second iterator over the same TermDictionary value is
		// advanced in lock-step: iterators of one dictionary are independent
		var itr2 segment.DictionaryIterator
		var got2 []string
		if c.Prob(1, 4, "dict.second") {
			itr2 = dict.AutomatonIterator(nil, nil, nil)
			r.count("probe.dict.two-iterators-of-one-dictionary")
		}
		var got []CTerm
		recheckAt := -1
		if len(finished) > 0 && c.Bool("dict.recheck-exhausted-mid") {
			recheckAt = c.Choose(3, "dict.recheck-at")
			r.count("probe.dict.exhausted-iterator-asked-again")
		}
		for {
			if len(got) == recheckAt {
				// ... also while a younger iterator is in the middle of its walk
				checkFinished("while a younger iterator is in use")
				recheckAt = -1
			}
			if itr2 != nil {
				e2, err := itr2.Next()
				if err != nil {
					r.fail("C08.error", "DictionaryIterator.Next", "%s field %q second (match-all) iterator: %v", h.Name, field, err)
				}
				if e2 != nil {
					got2 = append(got2, e2.Term)
				}
			}
			e, err := itr.Next()
			if err != nil {
				r.fail("C08.error", "DictionaryIterator.Next", "%s field %q %s [%q,%q): %v", h.Name, field, adesc, start, end, err)
			}
			if e == nil {
				break
			}
			got = append(got, CTerm{Term: e.Term, Count: e.Count})
			if len(got) > len(ref)+4 {
				r.fail("C08.terms", "DictionaryIterator.Next", "%s field %q %s: iterator returns more entries than the field has terms", h.Name, field, adesc)
			}
		}
		where := fmt.Sprintf("%s(%s,depth=%d) field %q automaton %s range [%q,%q)", h.Name, h.Kind, h.Depth, field, adesc, start, end)
		if itr2 != nil {
			for {
				e2, err := itr2.Next()
				if err != nil {
					r.fail("C08.error", "DictionaryIterator.Next", "%s field %q second (match-all) iterator: %v", h.Name, field, err)
				}
				if e2 == nil {
					break
				}
				got2 = append(got2, e2.Term)
				if len(got2) > len(ref)+4 {
					break
				}
			}
			if !eqStr(got2, termNames(ref)) {
				r.fail("C08.terms", "DictionaryIterator.Next", "%s: a second match-all iterator of the same dictionary, advanced alternately, returned %q instead of %q", where, got2, termNames(ref))
			}
		}
		for i := 0; i < len(got) && i < len(want); i++ {
			if got[i].Term != want[i].Term {
				r.fail("C08.terms", "DictionaryIterator.Next", "%s: entry #%d is %q, expected %q", where, i, got[i].Term, want[i].Term)
			}
		}
		if len(got) != len(want) {
			r.fail("C08.terms", "DictionaryIterator.Next", "%s: %d entries, expected %d (%q vs %q; all terms %q)", where, len(got), len(want), termNames(got), termNames(want), termNames(ref))
		}
		for i := range got {
			pl, err := dict.PostingsList([]byte(got[i].Term), nil, nil)
			if err != nil {
				r.fail("C08.error", "PostingsList", "%s term %q: %v", where, got[i].Term, err)
			}
			if got[i].Count != pl.Count() {
				prev := "none"
				if i > 0 {
					prev = fmt.Sprintf("%q(count %d)", got[i-1].Term, got[i-1].Count)
				}
				r.fail("C08.count", "DictionaryIterator.Next", "%s: entry %q reports Count=%d, its postings list has %d documents (previous entry: %s)",
					where, got[i].Term, got[i].Count, pl.Count(), prev)
			}
		}
		// Contains / Cardinality agree with the same term set
		if dict.Cardinality() != len(ref) {
			r.fail("C08.cardinality", "Cardinality", "%s field %q: Cardinality=%d, match-all iteration returns %d terms", h.Name, field, dict.Cardinality(), len(ref))
		}
		probe := genTerm(c, true)
		if len(ref) > 0 && c.Bool("dict.probeexisting") {
			probe = ref[c.Choose(len(ref), "dict.probe")].Term
		}
		ok, err := dict.Contains([]byte(probe))
		if err != nil {
			r.fail("C08.error", "Contains", "%s field %q Contains(%q): %v", h.Name, field, probe, err)
		}
		if ok != (findTerm(ref, probe) != nil) {
			r.fail("C08.contains", "Contains", "%s field %q: Contains(%q)=%v but match-all iteration says %v", h.Name, field, probe, ok, !ok)
		}
		if h.Seg != nil && len(finished) < 6 {
			finished = append(finished, doneIter{itr, where})
		}
		if it+1 < n && c.Bool("dict.recheck-exhausted") {
			checkFinished("after " + where)
			r.count("probe.dict.exhausted-iterator-asked-again")
		}
		r.ev("dict %s -> %d terms", where, len(got))
		r.count("op.dictiter")
		if h.Depth >= 1 && len(got) >= 2 {
			r.NonTrivial = true
			r.count("probe.dict.merged>=2terms")
			for i := 1; i < len(got); i++ {
				if got[i-1].Count == 1 && got[i].Count > 1 {
					r.count("probe.dict.multi-after-single")
				}
			}
		}
	}
	r.Sample["ops"] = r.Events
}

func termNames(ts []CTerm) []string {
	out := make([]string, len(ts))
	for i := range ts {
		out[i] = ts[i].Term
	}
	return out
}

// ---------------------------------------------------------------------------
// C07

func genExcept(c *Chooser, hits []CHit, ndocs uint64) (*roaring.Bitmap, string) {
	switch c.Choose(7, "except.kind") {
	case 0, 1:
		return nil, "nil"
	case 2:
		return roaring.New(), "empty"
	case 3:
		b := roaring.New()
		for _, h := range hits {
			b.Add(uint32(h.Doc))
		}
		return b, "allhits"
	case 4:
		b := roaring.New()
		for d := uint64(0); d < ndocs+3; d++ {
			b.Add(uint32(d))
		}
		return b, "superset"
	default:
		b := roaring.New()
		den := 2 + c.Choose(3, "except.den")
		for d := uint64(0); d < ndocs; d++ {
			if c.Choose(den, "except.bit") == 0 {
				b.Add(uint32(d))
			}
		}
		return b, "random"
	}
}

type plPool struct {
	lists []segment.PostingsList
	iters []segment.PostingsIterator
}

func postingsProtocol(r *RunCtx) {
	c := r.ch
	w := newWorld(r, false, false)
	defer w.CloseAll()
	w.PopParts = MergeParts{Postings: true}
	w.populate(1)
	// cold twin instances, as in the dictionary protocol
	for _, h := range w.Segs {
		if h.Seg == nil {
			continue
		}
		cold := w.twinOf(h)
		h.Seg.Close()
		h.Seg = cold
	}
	var pool plPool
	n := 6 + c.Choose(20, "post.nseq")
	advances, reuses := 0, 0
	for it := 0; it < n; it++ {
		if it > 0 && c.Prob(1, 25, "post.closeseg") {
			// retire one mmap segment; objects obtained from it stay in the prealloc pool
			live := 0
			for _, h := range w.Segs {
				if h.Seg != nil {
					live++
				}
			}
			if live > 1 {
				h := w.pickSeg("post.closewhich")
				if h.Kind != "mem" {
					h.Seg.Close()
					h.Seg = nil
					r.ev("close %s", h.Name)
					r.count("probe.prealloc.from-closed-segment")
				}
			}
		}
		h := w.pickSeg("post.seg")
		field := w.pickField(h, "post.field")
		ref := h.Canon.Terms[field]
		var term string
		var refHits []CHit
		if len(ref) > 0 && c.Choose(6, "post.existing") != 0 {
			// bias towards long lists
			t := &ref[c.Choose(len(ref), "post.term")]
			if c.Bool("post.longest") {
				for i := range ref {
					if len(ref[i].Hits) > len(t.Hits) {
						t = &ref[i]
					}
				}
			}
			term, refHits = t.Term, t.Hits
		} else {
			term = genTerm(c, true)
			if t := findTerm(ref, term); t != nil {
				refHits = t.Hits
			}
		}
		except, exdesc := genExcept(c, refHits, h.Canon.Count)
		var want []CHit
		for _, hit := range refHits {
			if except == nil || !except.Contains(uint32(hit.Doc)) {
				want = append(want, hit)
			}
		}
		dict, err := h.Seg.Dictionary(field)
		if err != nil {
			r.fail("C07.error", "Dictionary", "%v", err)
		}
		var preL segment.PostingsList
		var preI segment.PostingsIterator
		pdesc := ""
		if len(pool.lists) > 0 && c.Bool("post.preL") {
			preL = pool.lists[c.Choose(len(pool.lists), "post.preLi")]
			pdesc += "+preallocList"
			reuses++
		}
		if len(pool.iters) > 0 && c.Bool("post.preI") {
			preI = pool.iters[c.Choose(len(pool.iters), "post.preIi")]
			pdesc += "+preallocIter"
			reuses++
		}
		pl, err := dict.PostingsList([]byte(term), except, preL)
		if err != nil {
			r.fail("C07.error", "PostingsList", "%s field %q term %q: %v", h.Name, field, term, err)
		}
		where := fmt.Sprintf("%s(%s,depth=%d,mode=%d) field %q term %q except=%s%s", h.Name, h.Kind, h.Depth, h.Mode, field, term, exdesc, pdesc)
		if pl.Count() != uint64(len(want)) {
			r.fail("C07.count", "PostingsList.Count", "%s: Count=%d, non-excluded hits=%d", where, pl.Count(), len(want))
		}
		fFreq, fNorm, fLocs := c.Bool("post.ffreq"), c.Bool("post.fnorm"), c.Bool("post.flocs")
		itr := pl.Iterator(fFreq, fNorm, fLocs, preI)
		where += fmt.Sprintf(" flags=%v/%v/%v", fFreq, fNorm, fLocs)
		// the actual bitmap / single-hit accessor describe exactly the non-excluded hits
		opt, isOpt := itr.(segment.OptimizablePostingsIterator)
		wantSet := roaring.New()
		for _, hit := range want {
			wantSet.Add(uint32(hit.Doc))
		}
		if isOpt {
			abm := opt.ActualBitmap()
			d1, ok1 := opt.DocNum1Hit()
			switch {
			case abm != nil:
				if !abm.Equals(wantSet) {
					r.fail("C07.actual", "ActualBitmap", "%s: ActualBitmap=%v, non-excluded hits=%v", where, abm.ToArray(), wantSet.ToArray())
				}
				if ok1 {
					r.fail("C07.actual", "DocNum1Hit", "%s: both an actual bitmap and a single-hit document are reported", where)
				}
			case ok1:
				if len(want) != 1 || want[0].Doc != d1 {
					r.fail("C07.actual", "DocNum1Hit", "%s: DocNum1Hit=%d, non-excluded hits=%v", where, d1, wantSet.ToArray())
				}
				r.count("probe.post.1hit-list")
			default:
				if len(want) != 0 {
					r.fail("C07.actual", "ActualBitmap", "%s: neither actual bitmap nor single hit, but %d non-excluded hits", where, len(want))
				}
			}
			// ReplaceActual by a subset, before the first call
			if abm != nil && len(want) > 1 && c.Prob(1, 5, "post.replace") {
				sub := roaring.New()
				var w2 []CHit
				for _, hit := range want {
					if c.Bool("post.replace.keep") {
						sub.Add(uint32(hit.Doc))
						w2 = append(w2, hit)
					}
				}
				opt.ReplaceActual(sub)
				want = w2
				where += fmt.Sprintf(" ReplaceActual(%v)", sub.ToArray())
				r.count("probe.post.replaceactual")
			}
		}
		// a seeded Next/Advance sequence
		pos := 0 // index into want of the next candidate
		last := int64(-1)
		seq := ""
		for step := 0; step < 400; step++ {
			var p segment.Posting
			var err error
			doAdvance := c.Choose(3, "post.op") == 0
			var target uint64
			if doAdvance {
				// target strictly beyond the last returned document
				lo := uint64(last + 1)
				var hi uint64 = h.Canon.Count + 2
				if hi <= lo {
					hi = lo + 1
				}
				switch c.Choose(4, "post.target") {
				case 0:
					target = lo
				case 1:
					if pos < len(want) {
						target = want[pos].Doc
						if k := pos + c.Choose(4, "post.skip"); k < len(want) {
							target = want[k].Doc
						}
					} else {
						target = lo
					}
				default:
					target = lo + uint64(c.Choose(int(hi-lo), "post.targetv"))
				}
				if target < lo {
					target = lo
				}
				if c.Prob(1, 25, "post.hugetarget") {
					// the target is a uint64 while document numbers have 32 bits: a target
					// beyond every possible document number is a legal way to say "the end"
					target = []uint64{1 << 32, 1<<32 + lo, 1<<32 | 1, 1<<40 + 3, math.MaxUint64}[c.Choose(5, "post.hugetargetv")]
					r.count("probe.post.target-beyond-32-bits")
				}
				p, err = itr.Advance(target)
				seq += fmt.Sprintf("A%d ", target)
				for pos < len(want) && want[pos].Doc < target {
					pos++
					advances++
				}
			} else {
				p, err = itr.Next()
				seq += "N "
			}
			if err != nil {
				r.fail("C07.error", "Next/Advance", "%s after [%s]: %v", where, seq, err)
			}
			if pos >= len(want) {
				if p != nil {
					r.fail("C07.sequence", "Next/Advance", "%s after [%s]: returned doc %d, expected end of list", where, seq, p.Number())
				}
				if c.Bool("post.pastend") {
					break
				}
				if step > len(want)+4 {
					break
				}
				continue
			}
			e := &want[pos]
			if p == nil {
				r.fail("C07.sequence", "Next/Advance", "%s after [%s]: returned end of list, expected doc %d", where, seq, e.Doc)
			}
			if p.Number() != e.Doc {
				r.fail("C07.sequence", "Next/Advance", "%s after [%s]: returned doc %d, expected doc %d", where, seq, p.Number(), e.Doc)
			}
			g := postingToHit(p)
			if fFreq && g.Freq != e.Freq {
				r.fail("C07.details", "Next/Advance", "%s after [%s]: doc %d frequency %d, expected %d", where, seq, e.Doc, g.Freq, e.Freq)
			}
			if fNorm && g.Norm != e.Norm {
				r.fail("C07.details", "Next/Advance", "%s after [%s]: doc %d norm %v, expected %v", where, seq, e.Doc, g.Norm, e.Norm)
			}
			if fLocs {
				x, y := CHit{Doc: e.Doc, Freq: e.Freq, Norm: e.Norm, Locs: g.Locs}, *e
				if !eqHit(&x, &y) {
					r.fail("C07.details", "Next/Advance", "%s after [%s]: doc %d locations %s, expected %s", where, seq, e.Doc, hitString(&x), hitString(&y))
				}
			} else if len(g.Locs) != 0 {
				r.fail("C07.details", "Next/Advance", "%s after [%s]: doc %d carries %d locations although none were requested", where, seq, e.Doc, len(g.Locs))
			}
			last = int64(e.Doc)
			pos++
		}
		r.ev("postings %s seq=[%s]", where, seq)
		r.count("op.postingsseq")
		if len(refHits) >= 3 {
			r.count("probe.post.list>=3hits")
		}
		if uint64(len(refHits)) > 2*uint64(maxU32(h.Mode, 1)) && h.Mode <= 1024 {
			r.count("probe.post.list>=3chunks")
		}
		// keep the objects for later reuse as preallocation
		if len(pool.lists) < 5 {
			pool.lists = append(pool.lists, pl)
		} else {
			pool.lists[c.Choose(5, "post.pool")] = pl
		}
		if len(pool.iters) < 5 {
			pool.iters = append(pool.iters, itr)
		} else {
			pool.iters[c.Choose(5, "post.pooli")] = itr
		}
	}
	if advances > 0 && reuses > 0 {
		r.NonTrivial = true
	}
	r.Sample["ops"] = r.Events
}

func maxU32(a, b uint32) uint32 {
	if a > b {
		return a
	}
	return b
}

// ---------------------------------------------------------------------------
// C03

type dvState struct {
	fields []string
	st     segment.DocVisitState
	last   *SegH
	lastCh uint64
}

func docValuesProtocol(r *RunCtx) {
	c := r.ch
	w := newWorld(r, c.Choose(5, "cfg.syn") == 0, false)
	defer w.CloseAll()
	w.PopParts = MergeParts{DocValues: true}
	w.populate(1)
	// Transposed: doc values of a built segment are its postings, transposed
	for _, h := range w.Segs {
		if h.Depth != 0 {
			continue
		}
		// the visitable doc-value fields are exactly the fields of the batch that
		// were indexed with doc values (the one clause of the statement that is
		// checked against the input itself)
		if h.Spec != nil {
			want := map[string]bool{}
			if len(h.Spec.Docs) > 0 {
				for i := range h.Spec.Docs {
					d := &h.Spec.Docs[i]
					for j := range d.Fields {
						if d.Fields[j].Opts.IncludeDocValues() {
							want[d.Fields[j].Name] = true
						}
					}
					for j := range d.Composite {
						if d.Composite[j].Opts.IncludeDocValues() {
							want[d.Composite[j].Name] = true
						}
					}
				}
			}
			wl := sortedKeys(want)
			if !eqStr(wl, h.Canon.DVFields) {
				r.fail("C03.fields", "VisitableDocValueFields", "%s(%s): VisitableDocValueFields=%q, the batch indexes %q with doc values", h.Name, h.Kind, h.Canon.DVFields, wl)
			}
		}
		for _, f := range h.Canon.DVFields {
			exp := make([][]string, h.Canon.Count)
			for _, t := range h.Canon.Terms[f] {
				for _, hit := range t.Hits {
					exp[hit.Doc] = append(exp[hit.Doc], t.Term)
				}
			}
			// a geo-shape field adds its encoded shape to the document's doc values
			if h.Spec != nil {
				for d := range h.Spec.Docs {
					// one encoded shape per (document, field): with several values of
					// the field in one document, the last one is kept
					shape := ""
					for j := range h.Spec.Docs[d].Fields {
						fs := &h.Spec.Docs[d].Fields[j]
						if fs.Kind == 'g' && fs.Name == f {
							shape = string(fs.Shape)
						}
					}
					if shape != "" && d < len(exp) {
						exp[d] = append(exp[d], shape)
					}
				}
			}
			for d := range exp {
				sort.Strings(exp[d])
				var got []string
				if h.Canon.DV[f] != nil {
					got = h.Canon.DV[f][d]
				}
				if !eqStr(exp[d], got) {
					r.fail("C03.transposed", "VisitDocValues", "%s(%s) field %q doc %d: doc values %q, postings say %q", h.Name, h.Kind, f, d, got, exp[d])
				}
			}
		}
	}
	chunk := uint64(zap.LegacyChunkMode)
	var states []*dvState
	allFields := []string{"nosuchfield", "_id"}
	for _, f := range w.Cfg.Fields {
		allFields = append(allFields, f.Name)
	}
	if w.Cfg.Composite {
		allFields = append(allFields, "_all")
	}
	newState := func() *dvState {
		s := &dvState{}
		n := 1 + c.Choose(len(allFields), "dv.nfields")
		start := c.Choose(len(allFields), "dv.fieldstart")
		for k := 0; k < n; k++ {
			s.fields = append(s.fields, allFields[(start+k)%len(allFields)])
		}
		return s
	}
	n := 8 + c.Choose(40, "dv.nvisits")
	cur := uint64(0)
	for it := 0; it < n; it++ {
		if it > 0 && c.Prob(1, 30, "dv.closeseg") {
			live := 0
			for _, h := range w.Segs {
				if h.Seg != nil {
					live++
				}
			}
			if live > 1 {
				h := w.pickSeg("dv.closewhich")
				if h.Kind != "mem" {
					h.Seg.Close()
					h.Seg = nil
					r.ev("close %s", h.Name)
					r.count("probe.dv.state-from-closed-segment")
				}
			}
		}
		h := w.pickSeg("dv.seg")
		if h.Canon.Count == 0 {
			continue
		}
		var s *dvState
		if len(states) > 0 && c.Choose(4, "dv.reuse") != 0 {
			s = states[c.Choose(len(states), "dv.which")]
		} else {
			s = newState()
			if len(states) < 4 {
				states = append(states, s)
			} else {
				states[c.Choose(4, "dv.replace")] = s
			}
		}
		// document order: ascending, descending, random, repeat, chunk jumps
		nd := h.Canon.Count
		switch c.Choose(6, "dv.order") {
		case 0:
			cur = (cur + 1) % nd
		case 1:
			cur = (cur + nd - 1) % nd
		case 2:
			// same document again
			cur = cur % nd
		case 3:
			cur = (cur + chunk) % nd
		case 4:
			cur = (cur + nd - (chunk % nd)) % nd
		default:
			cur = uint64(c.Choose(int(nd), "dv.doc"))
		}
		got, st2, err := extractDV(h.Seg, cur, s.fields, s.st)
		if err != nil {
			r.fail("C03.error", "VisitDocValues", "%s doc %d fields %q: %v", h.Name, cur, s.fields, err)
		}
		reused := s.st != nil
		crossSeg := reused && s.last != h
		ch := cur / chunk
		if reused && !crossSeg && ch != s.lastCh {
			r.NonTrivial = true
			if ch < s.lastCh {
				r.count("probe.dv.chunk-reload-backwards")
			} else {
				r.count("probe.dv.chunk-reload-forwards")
			}
		}
		if crossSeg {
			r.count("probe.dv.state-across-segments")
		}
		for _, f := range s.fields {
			var want []string
			if h.Canon.DV[f] != nil {
				want = h.Canon.DV[f][cur]
			}
			if !eqStr(want, got[f]) {
				r.fail("C03.history", "VisitDocValues", "%s(%s,depth=%d) doc %d field %q with %s state (fields %q): got %q, a fresh-state visit gives %q",
					h.Name, h.Kind, h.Depth, cur, f, stateDesc(reused, crossSeg), s.fields, got[f], want)
			}
		}
		for f := range got {
			found := false
			for _, x := range s.fields {
				if x == f {
					found = true
				}
			}
			if !found {
				r.fail("C03.history", "VisitDocValues", "%s doc %d: callback for field %q which was not asked for (%q)", h.Name, cur, f, s.fields)
			}
		}
		s.st, s.last, s.lastCh = st2, h, ch
		r.ev("visit %s doc %d fields=%d state=%s", h.Name, cur, len(s.fields), stateDesc(reused, crossSeg))
		r.count("op.dvvisit")
	}
	r.Sample["ops"] = r.Events
}

func stateDesc(reused, cross bool) string {
	switch {
	case !reused:
		return "fresh"
	case cross:
		return "carried-over(other segment)"
	}
	return "reused"
}
