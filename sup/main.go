// verifsim: supervisor of the deterministic-simulation checks for zapx.
//
//	verifsim check <id> [--tier quick|thorough]   rebuild workers from /repo, fan out seeded runs, minimise, report
//	verifsim replay <file>                        re-execute a replay file in a fresh worker process
//	verifsim selftest [--seeds N]                 determinism self-test (maintenance; not part of any verdict)
//
// Exit codes: 0 property held on everything explored (possibly after
// KNOWN-FINDING lines); 1 with a line "VIOLATION property=<id> replay=<path>";
// 2 build failure, watchdog, harness trouble or a failure that does not
// reproduce from its own trace - never dressed up as a violation.
package main

import (
	"bufio"
	"bytes"
	"encoding/json"
	"fmt"
	"os"
	"os/exec"
	"path/filepath"
	"regexp"
	"sort"
	"strconv"
	"strings"
	"sync"
	"time"
)

// verifDir is the directory the check script lives in (its working directory):
// /verif for registered commands, a snapshot directory under `vp run`.
var verifDir = func() string {
	if d := os.Getenv("VERIF_DIR"); d != "" {
		return d
	}
	d, err := os.Getwd()
	if err != nil {
		return "/verif"
	}
	return d
}()

type Variant struct {
	Name  string // file suffix
	Tags  string
	Race  bool
	Share int // relative share of the run budget
}

type PropCfg struct {
	ID           string
	Level        string
	Variants     []Variant
	QuickRuns    int
	ThoroughRuns int
	QuickSecs    int
	ThoroughSecs int
	Rule         string
	Assumptions  []string
	Exhaustive   bool
}

var (
	vDef  = Variant{Name: "def", Tags: "verif", Share: 1}
	vVec  = Variant{Name: "vec", Tags: "verif,vectors", Share: 1}
	vRace = Variant{Name: "race", Tags: "verif", Race: true, Share: 1}
	vVecR = Variant{Name: "vecrace", Tags: "verif,vectors", Race: true, Share: 1}
)

func share(v Variant, s int) Variant { v.Share = s; return v }

var realStub = map[string]string{
	"zapx (package zap), built from /repo working tree":                         "real",
	"vellum, roaring, snappy, mmap-go, bleve_index_api, scorch_segment_api":     "real",
	"Linux page cache, mmap, fsync, unlink, RLIMIT_FSIZE, /dev/full, /dev/null": "real kernel",
	"go-faiss + native libfaiss (vectors build only)":                           "stub (pure-Go exact engine with accounting and fault plan, /verif/stubs/go-faiss)",
	"text analysis (tokenisation, norms)":                                       "not part of zapx; harness supplies analysed fields",
	"goroutine scheduling among simulated tasks":                                "simulator (seeded baton scheduler)",
	"vector cache expiry timer":                                                 "simulator (explicit expiry event through the verif hook; 1 s ticker parked)",
}

type Violation struct {
	Oracle string `json:"oracle"`
	Site   string `json:"site"`
	Msg    string `json:"msg"`
}

func (v *Violation) Class() string { return v.Oracle + "@" + v.Site }

type RunResult struct {
	Start      *int                   `json:"start,omitempty"`
	Run        int                    `json:"run"`
	OK         bool                   `json:"ok"`
	Viol       *Violation             `json:"viol,omitempty"`
	Trace      []int                  `json:"trace,omitempty"`
	Labels     []string               `json:"labels,omitempty"`
	Events     []string               `json:"events,omitempty"`
	Stats      map[string]int         `json:"stats,omitempty"`
	Digest     string                 `json:"digest"`
	States     []string               `json:"states,omitempty"`
	Scheds     []string               `json:"scheds,omitempty"`
	NonTrivial bool                   `json:"nontrivial"`
	Sample     map[string]interface{} `json:"sample,omitempty"`
	Choices    int                    `json:"choices"`
	Millis     int64                  `json:"ms"`
}

type ReplayFile struct {
	Property  string     `json:"property"`
	Tier      string     `json:"tier"`
	Seed      uint64     `json:"seed"`
	Run       int        `json:"run"`
	Variant   string     `json:"variant"`
	From      *int       `json:"from,omitempty"` // sequence replay: seeded runs From..Run in one process
	Trace     []int      `json:"trace"`
	Violation *Violation `json:"violation"`
	Events    []string   `json:"events,omitempty"`
	Labels    []string   `json:"labels,omitempty"`
	Note      string     `json:"note,omitempty"`
}

type Finding struct {
	Property string `json:"property"`
	Status   string `json:"status"` // known | fixed
	Oracle   string `json:"oracle"` // regexp on the oracle id
	Site     string `json:"site"`   // regexp on the site
	Msg      string `json:"msg"`    // regexp on the message (optional)
	What     string `json:"what"`
	Commit   string `json:"commit,omitempty"`
}

type failure struct {
	variant Variant
	from    int // first run index of the worker process that produced it
	run     int
	viol    *Violation
	trace   []int
	crashed bool
	stderr  string
}

func goEnv() []string {
	env := os.Environ()
	env = append(env, "GOFLAGS=-mod=mod", "GOPROXY=off", "GOSUMDB=off", "GOTOOLCHAIN=local", "CGO_ENABLED=1")
	return env
}

func workerPath(v Variant) string {
	return filepath.Join(verifDir, "bin", "simworker."+v.Name)
}

// repoModfile: checks build against /repo; with VERIF_REPO (or VP_RUN_REPO, set
// by `vp run --with-repo`) pointing elsewhere, a copy of sim/go.mod with the
// replace directive redirected is used instead (for background sweeps that must
// not see edits made to /repo while they run). Registered commands never set it.
var (
	altModOnce sync.Once
	altModPath string
	altModErr  error
)

// repoModfile is called by the builds of all variants, which run in parallel: the
// alternative go.mod is written once.
func repoModfile() (string, error) {
	altModOnce.Do(func() { altModPath, altModErr = writeRepoModfile() })
	return altModPath, altModErr
}

func writeRepoModfile() (string, error) {
	repo := os.Getenv("VERIF_REPO")
	if repo == "" {
		repo = os.Getenv("VP_RUN_REPO")
	}
	if repo == "" || repo == "/repo" {
		return "", nil
	}
	b, err := os.ReadFile(filepath.Join(verifDir, "sim", "go.mod"))
	if err != nil {
		return "", err
	}
	mod := strings.Replace(string(b), "=> /repo", "=> "+repo, 1)
	mod = strings.Replace(mod, "=> ../stubs/go-faiss", "=> "+filepath.Join(verifDir, "stubs", "go-faiss"), 1)
	dir := filepath.Join(verifDir, "bin")
	os.MkdirAll(dir, 0o755)
	mf := filepath.Join(dir, "alt.mod")
	if err := os.WriteFile(mf, []byte(mod), 0o644); err != nil {
		return "", err
	}
	sum, _ := os.ReadFile(filepath.Join(verifDir, "sim", "go.sum"))
	os.WriteFile(filepath.Join(dir, "alt.sum"), sum, 0o644)
	return mf, nil
}

func buildWorker(v Variant) error {
	args := []string{"build", "-tags", v.Tags}
	if v.Race {
		args = append(args, "-race")
	}
	if mf, err := repoModfile(); err != nil {
		return err
	} else if mf != "" {
		args = append(args, "-modfile="+mf)
	}
	args = append(args, "-o", workerPath(v), "./worker")
	cmd := exec.Command("go", args...)
	cmd.Dir = filepath.Join(verifDir, "sim")
	cmd.Env = goEnv()
	out, err := cmd.CombinedOutput()
	if err != nil {
		return fmt.Errorf("go %s: %v\n%s", strings.Join(args, " "), err, out)
	}
	return nil
}

func variantByName(cfg *PropCfg, name string) (Variant, bool) {
	for _, v := range cfg.Variants {
		if v.Name == name {
			return v, true
		}
	}
	for _, v := range []Variant{vDef, vVec, vRace, vVecR} {
		if v.Name == name {
			return v, true
		}
	}
	return Variant{}, false
}

// rssKB returns the resident set size of a process in KiB (0 when unknown).
func rssKB(pid int) int64 {
	b, err := os.ReadFile(fmt.Sprintf("/proc/%d/statm", pid))
	if err != nil {
		return 0
	}
	f := strings.Fields(string(b))
	if len(f) < 2 {
		return 0
	}
	pages, _ := strconv.ParseInt(f[1], 10, 64)
	return pages * int64(os.Getpagesize()) / 1024
}

const memLimitKB = 3 << 20 // 3 GiB resident per worker (16 workers, 62 GiB machine); clean runs stay below 1 GiB

// guardMemory kills the process when its resident memory exceeds the limit (the
// sandbox has no memory limit of its own, and corrupted on-disk structures turn
// into unbounded allocations). It returns a flag that tells whether it fired.
func guardMemory(cmd *exec.Cmd, done <-chan struct{}) *bool {
	fired := new(bool)
	go func() {
		tk := time.NewTicker(150 * time.Millisecond)
		defer tk.Stop()
		for {
			select {
			case <-done:
				return
			case <-tk.C:
				if cmd.Process != nil && rssKB(cmd.Process.Pid) > memLimitKB {
					*fired = true
					cmd.Process.Kill()
					return
				}
			}
		}
	}()
	return fired
}

// runWorker runs one worker process over [from,to) and streams results.
func runWorker(v Variant, prop, tier string, seed uint64, from, to int, deadline int64, samples int,
	onResult func(*RunResult), onCrash func(run int, stderr string, exit int)) {
	args := []string{"-prop", prop, "-tier", tier, "-seed", strconv.FormatUint(seed, 10),
		"-from", strconv.Itoa(from), "-to", strconv.Itoa(to), "-samples", strconv.Itoa(samples),
		"-deadline", strconv.FormatInt(deadline, 10)}
	if v.Race {
		args = append(args, "-tsan")
	}
	cmd := exec.Command(workerPath(v), args...)
	cmd.Env = append(os.Environ(), "GORACE=halt_on_error=1 exitcode=66", "GOTRACEBACK=all")
	var stderr bytes.Buffer
	cmd.Stderr = &stderr
	stdout, err := cmd.StdoutPipe()
	if err != nil {
		onCrash(from, err.Error(), -1)
		return
	}
	if err := cmd.Start(); err != nil {
		onCrash(from, err.Error(), -1)
		return
	}
	cur := -1
	finished := true
	// watchdog: a worker that prints nothing for 5 minutes is killed (exit 2, never a violation)
	lastOut := time.Now()
	var lmu sync.Mutex
	wdone := make(chan struct{})
	watchdogFired := false
	go func() {
		tk := time.NewTicker(5 * time.Second)
		defer tk.Stop()
		for {
			select {
			case <-wdone:
				return
			case <-tk.C:
				lmu.Lock()
				idle := time.Since(lastOut)
				lmu.Unlock()
				if idle > 5*time.Minute {
					watchdogFired = true
					cmd.Process.Kill()
					return
				}
			}
		}
	}()
	defer close(wdone)
	memFired := guardMemory(cmd, wdone)
	sc := bufio.NewScanner(stdout)
	sc.Buffer(make([]byte, 1<<20), 1<<28)
	for sc.Scan() {
		var rr RunResult
		lmu.Lock()
		lastOut = time.Now()
		lmu.Unlock()
		if err := json.Unmarshal(sc.Bytes(), &rr); err != nil {
			continue
		}
		if rr.Start != nil {
			cur = *rr.Start
			finished = false
			continue
		}
		finished = true
		onResult(&rr)
	}
	err = cmd.Wait()
	if watchdogFired {
		onCrash(cur, "WATCHDOG: the worker made no progress for 5 minutes and was killed", -4)
		return
	}
	if *memFired && !finished {
		onCrash(cur, "MEMORY: the worker exceeded 3 GiB of resident memory during this run and was killed", -5)
		if cur+1 < to && time.Now().Unix() < deadline {
			runWorker(v, prop, tier, seed, cur+1, to, deadline, 0, onResult, onCrash)
		}
		return
	}
	if !finished {
		code := -1
		if ee, ok := err.(*exec.ExitError); ok {
			code = ee.ExitCode()
		}
		s := stderr.String()
		if len(s) > 20000 {
			s = s[:20000]
		}
		onCrash(cur, s, code)
		// continue after the crashed run
		if cur+1 < to && time.Now().Unix() < deadline {
			runWorker(v, prop, tier, seed, cur+1, to, deadline, 0, onResult, onCrash)
		}
	} else if err != nil {
		onCrash(cur, "worker exited abnormally after finishing its runs: "+err.Error()+"\n"+stderr.String(), -2)
	}
}

// replayOnce runs a trace in a fresh worker and returns its result (nil when
// the process died; then stderr/exit tell why).
func replayOnce(v Variant, rf *ReplayFile, timeout time.Duration) (*RunResult, string, int) {
	tmp, err := os.CreateTemp("", "vreplay*.json")
	if err != nil {
		return nil, err.Error(), -1
	}
	defer os.Remove(tmp.Name())
	b, _ := json.Marshal(rf)
	tmp.Write(b)
	tmp.Close()
	args := []string{"-replay", tmp.Name()}
	if v.Race {
		args = append(args, "-tsan")
	}
	cmd := exec.Command(workerPath(v), args...)
	cmd.Env = append(os.Environ(), "GORACE=halt_on_error=1 exitcode=66", "GOTRACEBACK=all")
	var stdout, stderr bytes.Buffer
	cmd.Stdout, cmd.Stderr = &stdout, &stderr
	if err := cmd.Start(); err != nil {
		return nil, err.Error(), -1
	}
	done := make(chan error, 1)
	gdone := make(chan struct{})
	memFired := guardMemory(cmd, gdone)
	go func() { done <- cmd.Wait() }()
	select {
	case err = <-done:
		close(gdone)
	case <-time.After(timeout):
		close(gdone)
		cmd.Process.Kill()
		<-done
		return nil, "timeout", -3
	}
	if *memFired {
		return nil, "MEMORY: the worker exceeded 3 GiB of resident memory during this run and was killed", -5
	}
	code := 0
	if ee, ok := err.(*exec.ExitError); ok {
		code = ee.ExitCode()
	}
	var last *RunResult
	for _, line := range bytes.Split(stdout.Bytes(), []byte("\n")) {
		var rr RunResult
		if json.Unmarshal(line, &rr) == nil && rr.Start == nil && len(line) > 0 {
			r := rr
			last = &r
		}
	}
	return last, stderr.String(), code
}

var raceSiteRe = regexp.MustCompile(`github\.com/blevesearch/zapx/v16\.((?:\(\*?\w+\)\.)?\w+)`)

// crashViolation classifies a dead worker: race report, Go fatal error, or
// harness trouble.
func crashViolation(stderr string, exit int) (*Violation, bool) {
	site := "unknown"
	if m := raceSiteRe.FindStringSubmatch(stderr); m != nil {
		site = m[1]
	}
	switch {
	case strings.Contains(stderr, "HANG: run "):
		hs := "unknown"
		if i := strings.Index(stderr, "blocked in github.com/blevesearch/zapx/v16."); i >= 0 {
			rest := stderr[i+len("blocked in github.com/blevesearch/zapx/v16."):]
			if j := strings.IndexByte(rest, '\n'); j >= 0 {
				hs = rest[:j]
			}
		}
		return &Violation{Oracle: "hang", Site: hs, Msg: stderr[strings.Index(stderr, "HANG: run "):]}, true
	case strings.HasPrefix(stderr, "MEMORY:"):
		return &Violation{Oracle: "memory-blowup", Site: "worker", Msg: stderr + "\n(legal calls on the code under test allocated without bound - typically a corrupted length or offset read back from a segment)"}, true
	case strings.Contains(stderr, "WARNING: DATA RACE"):
		return &Violation{Oracle: "data-race", Site: site, Msg: stderr}, true
	case strings.Contains(stderr, "fatal error:") || strings.Contains(stderr, "unexpected fault address") ||
		strings.Contains(stderr, "SIGSEGV") || strings.Contains(stderr, "SIGBUS"):
		return &Violation{Oracle: "fatal", Site: site, Msg: stderr}, true
	}
	return nil, false
}

// sameClass: does the replay of a candidate trace fail in the same class?
func sameClass(v Variant, rf *ReplayFile, class string, tries int) bool {
	for i := 0; i < tries; i++ {
		rr, stderr, code := replayOnce(v, rf, 120*time.Second)
		if rr != nil {
			if rr.Viol != nil && rr.Viol.Class() == class {
				return true
			}
			if !v.Race {
				return false
			}
			continue
		}
		if cv, ok := crashViolation(stderr, code); ok && cv.Class() == class {
			return true
		}
		if !v.Race {
			return false
		}
	}
	return false
}

// minimise shrinks a failing choice trace by delta debugging in fresh worker
// processes: truncate, delete chunks, zero and halve single choices. A
// candidate is kept only if it fails in the same violation class.
func minimise(v Variant, rf ReplayFile, class string, budget time.Duration, flaky bool) []int {
	tries := 1
	if v.Race {
		tries = 6
	} else if flaky {
		tries = 4
	}
	deadline := time.Now().Add(budget)
	cur := append([]int(nil), rf.Trace...)
	test := func(cand []int) bool {
		c := rf
		c.Trace = cand
		return sameClass(v, &c, class, tries)
	}
	par := func(cands [][]int) int {
		if len(cands) == 0 {
			return -1
		}
		res := make([]bool, len(cands))
		var wg sync.WaitGroup
		sem := make(chan struct{}, 14)
		for i := range cands {
			wg.Add(1)
			sem <- struct{}{}
			go func(i int) {
				defer wg.Done()
				res[i] = test(cands[i])
				<-sem
			}(i)
		}
		wg.Wait()
		for i, ok := range res {
			if ok {
				return i
			}
		}
		return -1
	}
	// 1. truncation: shortest prefix (choices beyond the end read as 0)
	for len(cur) > 0 && time.Now().Before(deadline) {
		var cands [][]int
		for _, l := range []int{0, len(cur) / 8, len(cur) / 4, len(cur) / 2, len(cur) * 3 / 4, len(cur) - 1} {
			if l < len(cur) {
				cands = append(cands, append([]int(nil), cur[:l]...))
			}
		}
		i := par(cands)
		if i < 0 {
			break
		}
		cur = cands[i]
	}
	// 2. chunk deletion
	for size := len(cur) / 2; size >= 1 && time.Now().Before(deadline); {
		var cands [][]int
		for off := 0; off+size <= len(cur); off += size {
			c := append([]int(nil), cur[:off]...)
			c = append(c, cur[off+size:]...)
			cands = append(cands, c)
			if len(cands) >= 56 {
				break
			}
		}
		i := par(cands)
		if i >= 0 {
			cur = cands[i]
			if size > len(cur)/2 {
				size = len(cur) / 2
			}
			continue
		}
		size /= 2
	}
	// 3. zero / halve single entries
	for pass := 0; pass < 3 && time.Now().Before(deadline); pass++ {
		changed := false
		for start := 0; start < len(cur) && time.Now().Before(deadline); {
			var cands [][]int
			var idxs []int
			for k := start; k < len(cur) && len(cands) < 28; k++ {
				start = k + 1
				if cur[k] == 0 {
					continue
				}
				c := append([]int(nil), cur...)
				if pass == 0 {
					c[k] = 0
				} else {
					c[k] = cur[k] / 2
				}
				cands = append(cands, c)
				idxs = append(idxs, k)
			}
			// apply all individually-successful simplifications that still fail together
			if len(cands) == 0 {
				continue
			}
			res := make([]bool, len(cands))
			var wg sync.WaitGroup
			sem := make(chan struct{}, 14)
			for i := range cands {
				wg.Add(1)
				sem <- struct{}{}
				go func(i int) { defer wg.Done(); res[i] = test(cands[i]); <-sem }(i)
			}
			wg.Wait()
			merged := append([]int(nil), cur...)
			any := false
			for i, ok := range res {
				if ok {
					merged[idxs[i]] = cands[i][idxs[i]]
					any = true
				}
			}
			if any {
				if test(merged) {
					cur = merged
					changed = true
				} else {
					for i, ok := range res {
						if ok {
							cur = cands[i]
							changed = true
							break
						}
					}
				}
			}
		}
		if !changed && pass > 0 {
			break
		}
	}
	// trailing zeros carry no information
	for len(cur) > 0 && cur[len(cur)-1] == 0 {
		cur = cur[:len(cur)-1]
	}
	return cur
}

func loadFindings() []Finding {
	b, err := os.ReadFile(filepath.Join(verifDir, "known_findings.json"))
	if err != nil {
		return nil
	}
	var f struct {
		Findings []Finding `json:"findings"`
	}
	if err := json.Unmarshal(b, &f); err != nil {
		fmt.Fprintln(os.Stderr, "known_findings.json:", err)
		os.Exit(2)
	}
	return f.Findings
}

func matchFinding(fs []Finding, prop string, v *Violation) *Finding {
	for i := range fs {
		f := &fs[i]
		if f.Property != prop || f.Status != "known" {
			continue
		}
		if ok, _ := regexp.MatchString(f.Oracle, v.Oracle); !ok {
			continue
		}
		if ok, _ := regexp.MatchString(f.Site, v.Site); !ok {
			continue
		}
		if f.Msg != "" {
			if ok, _ := regexp.MatchString(f.Msg, v.Msg); !ok {
				continue
			}
		}
		return f
	}
	return nil
}

func usage() {
	fmt.Fprintln(os.Stderr, "usage: verifsim check <id> [--tier quick|thorough] | replay <file> | selftest [--seeds N] [--props a,b]")
	os.Exit(2)
}

// withScratch runs f with TMPDIR pointing at a directory of this invocation's
// own, and removes it afterwards: a worker that is killed (deadline, watchdog,
// memory guard, hang, crash) cannot clean up after itself, and thousands of
// checks would otherwise leave as many run directories behind in /tmp.
func withScratch(f func() int) int {
	root, err := os.MkdirTemp("", "verifsim-")
	if err != nil {
		fmt.Fprintln(os.Stderr, "cannot create a scratch directory:", err)
		return 2
	}
	os.Setenv("TMPDIR", root)
	code := f()
	os.RemoveAll(root)
	return code
}

func main() {
	if len(os.Args) < 2 {
		usage()
	}
	switch os.Args[1] {
	case "check":
		if len(os.Args) < 3 {
			usage()
		}
		tier := os.Getenv("VERIF_TIER")
		if tier == "" {
			tier = "quick"
		}
		runs := 0
		secs := 0
		for i := 3; i < len(os.Args); i++ {
			switch os.Args[i] {
			case "--tier":
				i++
				tier = os.Args[i]
			case "--runs":
				i++
				runs, _ = strconv.Atoi(os.Args[i])
			case "--secs":
				i++
				secs, _ = strconv.Atoi(os.Args[i])
			}
		}
		os.Exit(withScratch(func() int { return check(os.Args[2], tier, runs, secs) }))
	case "replay":
		if len(os.Args) < 3 {
			usage()
		}
		os.Exit(withScratch(func() int { return replayCmd(os.Args[2]) }))
	case "selftest":
		os.Exit(withScratch(func() int { return selftest(os.Args[2:]) }))
	default:
		usage()
	}
}

func seedFromEnv() uint64 {
	s := os.Getenv("VERIF_SEED")
	if s == "" {
		return 20260927
	}
	v, err := strconv.ParseUint(s, 10, 64)
	if err != nil {
		iv, err2 := strconv.ParseInt(s, 10, 64)
		if err2 != nil {
			fmt.Fprintln(os.Stderr, "bad VERIF_SEED:", s)
			os.Exit(2)
		}
		v = uint64(iv)
	}
	return v
}

func check(id, tier string, runsOverride, secsOverride int) int {
	cfg, ok := props[id]
	if !ok {
		fmt.Fprintln(os.Stderr, "unknown or unclaimed property", id)
		return 2
	}
	if tier != "quick" && tier != "thorough" {
		fmt.Fprintln(os.Stderr, "bad tier", tier)
		return 2
	}
	seed := seedFromEnv()
	fmt.Printf("verifsim check %s tier=%s VERIF_SEED=%d\n", id, tier, seed)
	t0 := time.Now()
	os.MkdirAll(filepath.Join(verifDir, "bin"), 0o755)
	os.MkdirAll(filepath.Join(verifDir, "evidence"), 0o755)
	os.MkdirAll(filepath.Join(verifDir, "replays"), 0o755)
	var bwg sync.WaitGroup
	berrs := make([]error, len(cfg.Variants))
	for i, v := range cfg.Variants {
		bwg.Add(1)
		go func(i int, v Variant) { defer bwg.Done(); berrs[i] = buildWorker(v) }(i, v)
	}
	bwg.Wait()
	for _, err := range berrs {
		if err != nil {
			fmt.Fprintln(os.Stderr, "BUILD FAILED (exit 2):", err)
			return 2
		}
	}
	buildS := time.Since(t0).Seconds()

	total, secs := cfg.QuickRuns, cfg.QuickSecs
	if tier == "thorough" {
		total, secs = cfg.ThoroughRuns, cfg.ThoroughSecs
	}
	if runsOverride > 0 {
		total = runsOverride
	}
	if secsOverride > 0 {
		secs = secsOverride
	}
	deadline := time.Now().Add(time.Duration(secs) * time.Second).Unix()

	// split the run index space among variants by share
	shareSum := 0
	for _, v := range cfg.Variants {
		shareSum += v.Share
	}
	type job struct {
		v        Variant
		from, to int
		samples  int
	}
	var jobs []job
	next := 0
	nw := 16
	for _, v := range cfg.Variants {
		n := total * v.Share / shareSum
		if n < 1 {
			n = 1
		}
		chunk := n / (nw * 4)
		if chunk < 1 {
			chunk = 1
		}
		first := true
		for off := 0; off < n; off += chunk {
			end := off + chunk
			if end > n {
				end = n
			}
			s := 0
			if first {
				s = 3
				first = false
			}
			jobs = append(jobs, job{v, next + off, next + end, s})
		}
		next += n
	}
	var mu sync.Mutex
	agg := newAggregate()
	var fails []failure
	jobCh := make(chan job)
	var wg sync.WaitGroup
	for i := 0; i < nw; i++ {
		wg.Add(1)
		go func() {
			defer wg.Done()
			for j := range jobCh {
				if time.Now().Unix() >= deadline {
					continue
				}
				runWorker(j.v, id, tier, seed, j.from, j.to, deadline, j.samples,
					func(rr *RunResult) {
						mu.Lock()
						agg.add(j.v, rr)
						if rr.Viol != nil {
							fails = append(fails, failure{variant: j.v, from: j.from, run: rr.Run, viol: rr.Viol, trace: rr.Trace})
						}
						mu.Unlock()
					},
					func(run int, stderr string, exit int) {
						mu.Lock()
						defer mu.Unlock()
						if cv, ok := crashViolation(stderr, exit); ok {
							agg.evals++
							agg.perVariant[j.v.Name]++
							fails = append(fails, failure{variant: j.v, from: j.from, run: run, viol: cv, crashed: true, stderr: stderr})
						} else {
							agg.harnessErrs = append(agg.harnessErrs, fmt.Sprintf("worker %s died at run %d (exit %d): %s", j.v.Name, run, exit, tail(stderr, 2000)))
						}
					})
			}
		}()
	}
	// order jobs round-robin over variants
	byVar := map[string][]job{}
	var order []string
	for _, j := range jobs {
		if _, ok := byVar[j.v.Name]; !ok {
			order = append(order, j.v.Name)
		}
		byVar[j.v.Name] = append(byVar[j.v.Name], j)
	}
	for more := true; more; {
		more = false
		for _, name := range order {
			if len(byVar[name]) > 0 {
				jobCh <- byVar[name][0]
				byVar[name] = byVar[name][1:]
				more = true
			}
		}
	}
	close(jobCh)
	wg.Wait()
	runS := time.Since(t0).Seconds() - buildS

	if len(agg.harnessErrs) > 0 {
		for _, e := range agg.harnessErrs {
			fmt.Fprintln(os.Stderr, "HARNESS ERROR:", e)
		}
		fmt.Fprintln(os.Stderr, "exit 2: worker trouble that is not a property violation")
		return 2
	}

	// violations: one report per class
	findings := loadFindings()
	// start from the failing run with the fewest choices of each class: many runs
	// usually fail for one defect, and the shortest one minimises best
	sort.SliceStable(fails, func(a, b int) bool {
		la, lb := len(fails[a].trace), len(fails[b].trace)
		if fails[a].crashed {
			la = 1 << 30
		}
		if fails[b].crashed {
			lb = 1 << 30
		}
		if la != lb {
			return la < lb
		}
		return fails[a].run < fails[b].run
	})
	seen := map[string]bool{}
	attempts := map[string]int{} // failing runs of a class whose trace did not reproduce
	exit := 0
	unstable := false
	nViol := 0
	for _, f := range fails {
		cls := f.viol.Class()
		if seen[cls] {
			continue
		}
		seen[cls] = true
		if len(seen) > 4 {
			break
		}
		rf := ReplayFile{Property: id, Tier: tier, Seed: seed, Run: f.run, Variant: f.variant.Name, Trace: f.trace, Violation: f.viol}
		if f.crashed {
			tr, err := recordCrashTrace(f.variant, id, tier, seed, f.run)
			if err != nil {
				fmt.Fprintf(os.Stderr, "could not record the trace of crashing run %d: %v\n", f.run, err)
			}
			rf.Trace = tr
		}
		// A worker built with the race detector needs several times the memory of a
		// plain one. A memory blow-up seen there counts only if the plain build of
		// the same run blows up too; otherwise it is the detector's overhead on a
		// large (but legal) world, i.e. nothing zapx did.
		if f.variant.Race && f.viol.Oracle == "memory-blowup" {
			pv := vDef
			if f.variant.Tags == vVec.Tags {
				pv = vVec
			}
			if err := buildWorker(pv); err != nil {
				fmt.Fprintf(os.Stderr, "memory blow-up in run %d (%s): could not build the plain twin: %v\n", f.run, f.variant.Name, err)
				unstable = true
				continue
			}
			_, pst, pcode := replayOnce(pv, &rf, 300*time.Second)
			if cv, ok := crashViolation(pst, pcode); !ok || cv.Oracle != "memory-blowup" {
				fmt.Fprintf(os.Stderr, "note: run %d exceeded the memory limit in the %s worker only (race-detector overhead on a large world; the plain build stays below the limit): not a violation\n", f.run, f.variant.Name)
				continue
			}
		}
		// reproduce first. One attempt is enough unless the violation depends on
		// something no seed controls: sync.Pool randomness under -race, or the order
		// in which zapx walks its section map (Go map iteration). Then it replays
		// with the probability of that order, and up to 10 (race: 20) fresh-process
		// attempts are made.
		tries := 25
		if f.variant.Race {
			tries = 30
		}
		seqMode := false
		flaky := false
		if !sameClass(f.variant, &rf, cls, 1) {
			flaky = true
		}
		if flaky && !sameClass(f.variant, &rf, cls, tries) {
			// the run alone does not reproduce it: does the sequence of seeded runs
			// of its worker process (state left behind by earlier runs)?
			from := f.from
			srf := rf
			srf.Trace = nil
			srf.From = &from
			if f.run > f.from && sameClass(f.variant, &srf, cls, tries) {
				// shortest suffix of the sequence that still fails
				for _, back := range []int{1, 2, 4, 8, 16, 32, 64} {
					cand := f.run - back
					if cand <= f.from {
						break
					}
					c := srf
					c.From = &cand
					if sameClass(f.variant, &c, cls, tries) {
						srf = c
						break
					}
				}
				rf = srf
				seqMode = true
			}
		}
		if seqMode {
			if rr, _, _ := replayOnce(f.variant, &rf, 300*time.Second); rr != nil && rr.Viol != nil {
				rf.Violation = rr.Viol
				rf.Events = rr.Events
			}
			rf.Note = fmt.Sprintf("SEQUENCE replay: the violation depends on process-wide state left by earlier runs; seeded runs %d..%d are executed in one fresh process. Replay with: ./check replay <this file>", *rf.From, rf.Run)
			path := filepath.Join(verifDir, "replays", fmt.Sprintf("%s-%d-%d.json", id, seed, f.run))
			b, _ := json.MarshalIndent(&rf, "", " ")
			os.WriteFile(path, b, 0o644)
			nViol++
			if kf := matchFinding(findings, id, rf.Violation); kf != nil {
				fmt.Printf("KNOWN-FINDING: property=%s %s (replay=%s)\n", id, kf.What, path)
				continue
			}
			fmt.Printf("VIOLATION property=%s replay=%s\n", id, path)
			fmt.Printf("  class=%s variant=%s runs=%d..%d (sequence)\n  %s\n", cls, f.variant.Name, *rf.From, rf.Run, tail(firstLines(rf.Violation.Msg, 12), 1500))
			exit = 1
			continue
		}
		if flaky && !sameClass(f.variant, &rf, cls, tries) {
			// try the next failing runs of this class before giving up: a violation
			// that needs a particular order of zapx's section map AND a particular
			// instant may replay with a low probability for one trace and a fair one
			// for another
			attempts[cls]++
			if attempts[cls] < 4 {
				seen[cls] = false
				continue
			}
			fmt.Fprintf(os.Stderr, "UNSTABLE: run %d (%s) failed with %s but neither its trace nor those of %d other failing runs of that class reproduce it; treated as harness trouble\n%s\n",
				f.run, f.variant.Name, cls, attempts[cls]-1, tail(f.viol.Msg, 3000))
			unstable = true
			continue
		}
		before := len(rf.Trace)
		budget := 60 * time.Second
		if tier == "thorough" {
			budget = 240 * time.Second
		}
		rf.Trace = minimise(f.variant, rf, cls, budget, flaky)
		if flaky && !f.variant.Race {
			rf.Note = "replays probabilistically: the violation depends on the order in which zapx walks its section map (Go map iteration), which no seed controls; ./check replay retries up to 25 times. "
		}
		// final replay for the event log
		if rr, _, _ := replayOnce(f.variant, &rf, 120*time.Second); rr != nil && rr.Viol != nil {
			rf.Violation = rr.Viol
			rf.Events = rr.Events
			rf.Labels = rr.Labels
		}
		rf.Note += fmt.Sprintf("minimised from %d to %d choices; replay with: ./check replay <this file>", before, len(rf.Trace))
		path := filepath.Join(verifDir, "replays", fmt.Sprintf("%s-%d-%d.json", id, seed, f.run))
		b, _ := json.MarshalIndent(&rf, "", " ")
		os.WriteFile(path, b, 0o644)
		nViol++
		if kf := matchFinding(findings, id, rf.Violation); kf != nil {
			fmt.Printf("KNOWN-FINDING: property=%s %s (replay=%s)\n", id, kf.What, path)
			continue
		}
		fmt.Printf("VIOLATION property=%s replay=%s\n", id, path)
		fmt.Printf("  class=%s variant=%s run=%d choices=%d\n  %s\n", cls, f.variant.Name, f.run, len(rf.Trace), tail(firstLines(rf.Violation.Msg, 12), 1500))
		exit = 1
	}
	agg.writeEvidence(cfg, tier, seed, time.Since(t0).Seconds(), runS, buildS, nViol)
	fmt.Printf("%s: %d runs (%d non-trivial distinct) in %.1fs (+%.1fs build), %d failing runs in %d classes\n",
		id, agg.evals, len(agg.nontrivial), runS, buildS, len(fails), len(seen))
	if exit == 0 && unstable {
		return 2
	}
	return exit
}

func tail(s string, n int) string {
	if len(s) <= n {
		return s
	}
	return s[:n] + "..."
}

func firstLines(s string, n int) string {
	lines := strings.Split(s, "\n")
	if len(lines) > n {
		lines = lines[:n]
	}
	return strings.Join(lines, "\n  ")
}

// recordCrashTrace re-runs a crashing seeded run in a fresh process with its
// choice trace streamed to a file, so that even a Go fatal error leaves the
// trace prefix behind.
func recordCrashTrace(v Variant, prop, tier string, seed uint64, run int) ([]int, error) {
	tmp, err := os.CreateTemp("", "vtrace*.txt")
	if err != nil {
		return nil, err
	}
	tmp.Close()
	defer os.Remove(tmp.Name())
	args := []string{"-prop", prop, "-tier", tier, "-seed", strconv.FormatUint(seed, 10), "-run", strconv.Itoa(run), "-stream", tmp.Name()}
	if v.Race {
		args = append(args, "-tsan")
	}
	for attempt := 0; attempt < 20; attempt++ {
		cmd := exec.Command(workerPath(v), args...)
		cmd.Env = append(os.Environ(), "GORACE=halt_on_error=1 exitcode=66")
		err := cmd.Run()
		if err == nil && v.Race {
			continue // the race did not fire this time (sync.Pool randomness under -race)
		}
		break
	}
	b, err := os.ReadFile(tmp.Name())
	if err != nil {
		return nil, err
	}
	var tr []int
	for _, l := range strings.Fields(string(b)) {
		n, _ := strconv.Atoi(l)
		tr = append(tr, n)
	}
	return tr, nil
}

func replayCmd(path string) int {
	b, err := os.ReadFile(path)
	if err != nil {
		fmt.Fprintln(os.Stderr, err)
		return 2
	}
	var rf ReplayFile
	if err := json.Unmarshal(b, &rf); err != nil {
		fmt.Fprintln(os.Stderr, err)
		return 2
	}
	cfg := props[rf.Property]
	v, ok := variantByName(cfg, rf.Variant)
	if !ok {
		fmt.Fprintln(os.Stderr, "unknown variant", rf.Variant)
		return 2
	}
	if err := buildWorker(v); err != nil {
		fmt.Fprintln(os.Stderr, "BUILD FAILED:", err)
		return 2
	}
	tries := 25
	if v.Race {
		tries = 30
	}
	for i := 0; i < tries; i++ {
		rr, stderr, code := replayOnce(v, &rf, 300*time.Second)
		var viol *Violation
		if rr != nil {
			viol = rr.Viol
			if viol != nil || i == tries-1 {
				for _, e := range rr.Events {
					fmt.Println("  event:", e)
				}
			}
		} else if cv, ok := crashViolation(stderr, code); ok {
			viol = cv
		} else {
			fmt.Fprintf(os.Stderr, "worker died (exit %d): %s\n", code, tail(stderr, 3000))
			return 2
		}
		if viol != nil {
			fmt.Printf("VIOLATION property=%s replay=%s\n  class=%s\n  %s\n", rf.Property, path, viol.Class(), tail(firstLines(viol.Msg, 40), 6000))
			if rf.Violation != nil && rf.Violation.Class() != viol.Class() {
				fmt.Printf("  (recorded class was %s)\n", rf.Violation.Class())
			}
			return 1
		}
	}
	fmt.Printf("replay of %s: no violation\n", path)
	return 0
}
