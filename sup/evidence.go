package main

import (
	"encoding/json"
	"fmt"
	"os"
	"path/filepath"
	"sort"
	"strings"
)

type aggregate struct {
	evals       int
	perVariant  map[string]int
	digests     map[string]struct{}
	nontrivial  map[string]struct{}
	states      map[string]struct{}
	scheds      map[string]struct{}
	stats       map[string]int
	samples     []interface{}
	choices     int64
	millis      int64
	harnessErrs []string
	firstRun    int
	lastRun     int
}

func newAggregate() *aggregate {
	return &aggregate{perVariant: map[string]int{}, digests: map[string]struct{}{}, nontrivial: map[string]struct{}{},
		states: map[string]struct{}{}, scheds: map[string]struct{}{}, stats: map[string]int{}, firstRun: -1}
}

func (a *aggregate) add(v Variant, rr *RunResult) {
	a.evals++
	a.perVariant[v.Name]++
	key := v.Name + ":" + rr.Digest
	a.digests[key] = struct{}{}
	if rr.NonTrivial {
		a.nontrivial[key] = struct{}{}
	}
	for _, s := range rr.States {
		a.states[s] = struct{}{}
	}
	for _, sc := range rr.Scheds {
		a.scheds[sc] = struct{}{}
	}
	for k, n := range rr.Stats {
		a.stats[k] += n
	}
	if rr.Sample != nil && len(rr.Sample) > 0 && len(a.samples) < 3 {
		a.samples = append(a.samples, map[string]interface{}{"variant": v.Name, "run": rr.Run, "case": rr.Sample})
	}
	a.choices += int64(rr.Choices)
	a.millis += rr.Millis
	if a.firstRun < 0 || rr.Run < a.firstRun {
		a.firstRun = rr.Run
	}
	if rr.Run > a.lastRun {
		a.lastRun = rr.Run
	}
}

func (a *aggregate) group(prefix string) map[string]int {
	m := map[string]int{}
	for k, v := range a.stats {
		if strings.HasPrefix(k, prefix) {
			m[strings.TrimPrefix(k, prefix)] = v
		}
	}
	return m
}

func (a *aggregate) writeEvidence(cfg *PropCfg, tier string, seed uint64, wall, runS, buildS float64, nViol int) {
	samples := a.samples
	if len(samples) == 0 {
		samples = []interface{}{"no sample was produced (no run completed)"}
	}
	perHour := 0.0
	if runS > 0 {
		perHour = float64(a.evals) / runS * 3600
	}
	zeroProbes := []string{}
	for _, p := range expectedProbes[cfg.ID] {
		if a.stats[p] == 0 {
			zeroProbes = append(zeroProbes, p)
		}
	}
	sort.Strings(zeroProbes)
	for _, p := range zeroProbes {
		fmt.Fprintf(os.Stderr, "warning: reach probe %q stayed at zero in this batch\n", p)
	}
	variants := []string{}
	for _, v := range cfg.Variants {
		s := v.Tags
		if v.Race {
			s += " -race (invisible baton)"
		}
		variants = append(variants, fmt.Sprintf("%s: %s: %d runs", v.Name, s, a.perVariant[v.Name]))
	}
	cov := map[string]interface{}{
		"evaluations":                    a.evals,
		"distinct_nontrivial":            len(a.nontrivial),
		"rule":                           cfg.Rule,
		"samples":                        samples,
		"exhaustive":                     false,
		"distinct_runs":                  len(a.digests),
		"distinct_states":                len(a.states),
		"distinct_states_measure":        "distinct 64-bit digests of canonical segment answers / (task,op,result) event triples / schedule prefixes reached (each run reports at most 64)",
		"distinct_interleavings":         len(a.scheds),
		"distinct_interleavings_measure": "distinct (number of tasks, first 16 scheduler picks) pairs among the simulations of this batch; 0 for drivers without concurrent tasks",
		"runs_per_hour":                  int(perHour),
		"seeds":                          map[string]interface{}{"base": seed, "first_run_index": a.firstRun, "last_run_index": a.lastRun, "derivation": "splitmix64(VERIF_SEED, property, run index) -> xoshiro256** per run"},
		"choices_drawn":                  a.choices,
		"scheduler_steps":                a.stats["sim.steps"],
		"task_switches":                  a.stats["sim.switches"],
		"simulated_time":                 simTimeNote(cfg.ID, a.stats),
		"faults_fired":                   a.group("fault."),
		"reach_probes":                   a.group("probe."),
		"operations":                     a.group("op."),
		"other_counters":                 a.otherCounters(),
		"probes_at_zero":                 zeroProbes,
		"binary_variants":                variants,
		"real_vs_stub":                   realStub,
		"cpu_ms_in_runs":                 a.millis,
		"build_s":                        buildS,
	}
	ev := map[string]interface{}{
		"property_id": cfg.ID,
		"tier":        tier,
		"seed":        seed,
		"level":       cfg.Level,
		"coverage":    cov,
		"assumptions": cfg.Assumptions,
		"wall_s":      wall,
		"violations":  nViol,
	}
	b, _ := json.MarshalIndent(ev, "", " ")
	path := filepath.Join(verifDir, "evidence", cfg.ID+".json")
	if err := os.WriteFile(path, b, 0o644); err != nil {
		fmt.Fprintln(os.Stderr, "writing evidence:", err)
	}
}

func (a *aggregate) otherCounters() map[string]int {
	m := map[string]int{}
	for k, v := range a.stats {
		if strings.HasPrefix(k, "fault.") || strings.HasPrefix(k, "probe.") || strings.HasPrefix(k, "op.") || strings.HasPrefix(k, "sim.") {
			continue
		}
		m[k] = v
	}
	return m
}

func simTimeNote(id string, stats map[string]int) interface{} {
	if id == "C16" {
		return map[string]interface{}{"expiry_ticks": stats["sim.ticks"], "note": "each tick stands for one period of the cache monitor (1 s of wall clock in production)"}
	}
	return "not applicable: nothing behind this property reads a clock; progress is measured in scheduler steps and operations"
}
