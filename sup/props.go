package main

import (
	"bytes"
	"fmt"
	"os"
	"os/exec"
	"strconv"
	"strings"
	"sync"
)

var relAssume = "relative oracle: expected values are computed from other answers of the real code (solo run / fresh twin / input segments remapped); that a fresh, solo, fault-free call is the right function of the batch is assumed, not decided (C01/C02/C12/C14 are not applicable to this family)"
var sampAssume = "sampling, not enumeration: a clean batch is evidence, not proof"

var props = map[string]*PropCfg{
	"C03": {ID: "C03", Level: "exploration", Variants: []Variant{vDef},
		QuickRuns: 40000, ThoroughRuns: 3000000, QuickSecs: 45, ThoroughSecs: 900,
		Rule:        "one run = one seeded world (1-3 segments: built / persisted+opened / merged; doc-value chunk size from {1,2,3,7,64,1024}) and a seeded history of VisitDocValues calls (ascending, descending, random, repeated, chunk-crossing; state nil / reused for the same field list / carried over from another segment / from a closed segment); non-trivial = at least one visit with a reused state landed in a different chunk than the previous one; distinct = distinct digests of the run's event log",
		Assumptions: []string{relAssume, sampAssume, "terms do not contain byte 0xFF; GeoShape extra doc values are not generated"}},
	"C04": {ID: "C04", Level: "exploration", Variants: []Variant{vDef, vVec},
		QuickRuns: 24000, ThoroughRuns: 2000000, QuickSecs: 45, ThoroughSecs: 900,
		Rule:        "one run = one seeded world and 1-4 seeded batches, each built, streamed with WriteTo, persisted, read back byte for byte, footer/CRC checked against the documented v16 layout, re-opened and compared with the in-memory segment over the complete read surface; non-trivial = at least one non-empty batch; distinct = distinct digests of the run's event log",
		Assumptions: []string{relAssume, sampAssume, "vectors variant uses the stub engine"}},
	"C05": {ID: "C05", Level: "exploration", Variants: []Variant{vDef},
		QuickRuns: 22000, ThoroughRuns: 2000000, QuickSecs: 45, ThoroughSecs: 900,
		Rule:        "one run = one seeded segment store driven through 3-12 build / persist+open / merge / change-chunk-mode operations (merge inputs: 1-4 segments of mixed provenance incl. earlier merge outputs, deletion bitmaps nil/empty/one/partial/all-but-one/all, aborted merges interleaved); every merge output is compared with its inputs remapped through the returned maps; non-trivial = at least one merge with survivors; distinct = distinct digests of the run's event log",
		Assumptions: []string{relAssume, sampAssume}},
	"C06": {ID: "C06", Level: "exploration", Variants: []Variant{vDef},
		QuickRuns: 17000, ThoroughRuns: 2000000, QuickSecs: 45, ThoroughSecs: 900,
		Rule:        "as C05, comparing dictionaries, postings (frequency, norm, locations with source-field names) and doc values of every merge output with its inputs remapped; non-trivial = at least one merge with survivors; distinct = distinct digests of the run's event log",
		Assumptions: []string{relAssume, sampAssume, "a field with at least one token has analysed length >= 1 (norm 0 is the 'not single-hit' marker)"}},
	"C07": {ID: "C07", Level: "exploration", Variants: []Variant{vDef},
		QuickRuns: 32000, ThoroughRuns: 3000000, QuickSecs: 45, ThoroughSecs: 900,
		Rule:        "one run = one seeded world (built / opened / merged segments, chunk modes incl. 1,2,3) and a seeded history of postings-list uses: (term, exclusion bitmap) x Next/Advance sequences x detail-flag combinations, the list and iterator objects passed back in as preallocation across terms, fields and segments, ReplaceActual mid-iteration; non-trivial = at least one sequence with an Advance that skipped hits and one reuse of a preallocated object; distinct = distinct digests of the run's event log",
		Assumptions: []string{relAssume, sampAssume, "Advance targets are strictly beyond the last returned document, as the interface requires"}},
	"C08": {ID: "C08", Level: "exploration", Variants: []Variant{vDef},
		QuickRuns: 30000, ThoroughRuns: 3000000, QuickSecs: 45, ThoroughSecs: 900,
		Rule:        "one run = one seeded world (built / opened / merged once / merged repeatedly) and a seeded list of dictionary iterations: automaton (nil, match-all, exact, prefix, regexp, levenshtein 1-2, never) x key range (bounds absent / equal to / between / below / above existing terms); counts compared with fresh postings lists; non-trivial = at least one iteration over a merged segment returning >= 2 terms; distinct = distinct digests of the run's event log",
		Assumptions: []string{relAssume, sampAssume}},
	"C10": {ID: "C10", Level: "exploration", Variants: []Variant{vDef, vVec, share(vRace, 1)},
		QuickRuns: 2400, ThoroughRuns: 400000, QuickSecs: 50, ThoroughSecs: 900,
		Rule:        "one run = 1-4 builder tasks, each building a seeded list of batches (large-then-small, many-fields-then-few, synonym/vector then plain, empty, rejected by the field validator, failing engine call) interleaved at every document/field accessor callback and pool hook, with pool flushes in between; every successful build is compared with the same batch built in a pristine builder; non-trivial = a build reused a pooled builder that an earlier (different) batch had used, or two builds interleaved; distinct = distinct digests of the run's event log",
		Assumptions: []string{relAssume, sampAssume, "race variant: Go race detector under an invisible (raw-syscall) baton; sync.Pool drops 1/4 of Puts at random under -race, so pool contents are not replayable there"}},
	"C11": {ID: "C11", Level: "exploration", Variants: []Variant{share(vDef, 3), share(vRace, 1)},
		QuickRuns: 6000, ThoroughRuns: 600000, QuickSecs: 60, ThoroughSecs: 1200,
		Rule:        "one run = 1-3 shared segments (memory / mmap / merged, with synonyms), a solo history prefix shaping the scratch pools, then 2-6 reader tasks with seeded op lists (term queries, dictionary iterations, stored-field visits that continue / stop at _id / stop later / nest, DocID, DocNumbers, doc-value visits, thesaurus lookups, a merge reading the shared segments) interleaved at every harness callback and zapx yield hook; each call's result is compared with its solo result on a twin instance, visitor bytes are re-checked after a yield inside the callback, pool ownership is monitored; non-trivial = at least two tasks interleaved inside calls; distinct = distinct digests of the run's event log",
		Assumptions: []string{relAssume, sampAssume, "race variant: Go race detector under an invisible (raw-syscall) baton"}},
	"C13": {ID: "C13", Level: "exploration", Variants: []Variant{vDef},
		QuickRuns: 23000, ThoroughRuns: 2000000, QuickSecs: 45, ThoroughSecs: 900,
		Rule:        "as C05 with synonym documents in every world; thesauri of every merge output compared with the inputs' (term, synonym, document) triples remapped; non-trivial = at least one merge with survivors whose inputs hold synonym definitions; distinct = distinct digests of the run's event log",
		Assumptions: []string{relAssume, sampAssume}},
	"C15": {ID: "C15", Level: "exploration", Variants: []Variant{vVec},
		QuickRuns: 13000, ThoroughRuns: 1500000, QuickSecs: 45, ThoroughSecs: 900,
		Rule:        "as C05 in the vectors build with vector fields in every world; exhaustive search results of every merge output compared with the inputs' results remapped; non-trivial = at least one merge with survivors whose inputs hold vectors; distinct = distinct digests of the run's event log",
		Assumptions: []string{relAssume, sampAssume, "stub vector engine (exact brute force); FAISS itself is not exercised"}},
	"C16": {ID: "C16", Level: "exploration", Variants: []Variant{share(vVec, 3), share(vVecR, 1)},
		QuickRuns: 36000, ThoroughRuns: 1200000, QuickSecs: 60, ThoroughSecs: 1200,
		Rule:        "one run = one segment with 1-2 vector fields and a seeded history of open(field, filtering, except) / search / filtered search / close-handle / expiry tick / segment close events, single task or 2-4 interleaved tasks; every search is compared with the same search on a fresh twin opened from the same bytes; engine-side accounting and a handle model decide index lifetime; non-trivial = a search ran on a cache entry created by an earlier call with a different exclusion bitmap, or after an eviction and reload, or two tasks interleaved; distinct = distinct digests of the run's event log",
		Assumptions: []string{relAssume, sampAssume, "stub vector engine; expiry is an explicit event through the verif hook (one cleanup pass = one monitor tick), the 1 s ticker itself is parked"}},
	"C17": {ID: "C17", Level: "fault_enumeration", Variants: []Variant{share(vDef, 3), share(vVec, 1)},
		QuickRuns: 12000, ThoroughRuns: 2000000, QuickSecs: 60, ThoroughSecs: 1200,
		Rule:        "one run = one seeded input (segment or merge scenario) and a set of write faults on it: WriteTo with a failing writer at byte N (error, short write with error, short write without error); Persist and Merge with RLIMIT_FSIZE=N (torn write + EFBIG), symlink to /dev/full (ENOSPC), symlink to /dev/null (fsync fails), directory at path, missing parent; offsets: 0, 1, flush-boundary +-1, footer first/middle/last byte, L-1, plus seeded ones (small inputs: every offset); non-trivial = at least one fault fired inside the operation; distinct = distinct digests of the run's event log",
		Assumptions: []string{sampAssume, "faults are injected in the real kernel and in the io.Writer argument; no simulated disk"}},
	"C18": {ID: "C18", Level: "fault_enumeration", Variants: []Variant{share(vDef, 3), share(vVec, 1)},
		QuickRuns: 20000, ThoroughRuns: 1200000, QuickSecs: 60, ThoroughSecs: 1200,
		Rule:        "one run = one seeded merge scenario; a dry run counts the K write callbacks (and engine calls); then the channel is closed before the call, from callback k for a sample (thorough: all) of k in 1..K, after return, and by a concurrent closer task; non-trivial = the cancellation landed while the merge was in progress; distinct = distinct digests of the run's event log",
		Assumptions: []string{sampAssume, "nothing observable happens between two consecutive write callbacks except isClosed polls, so callback instants cover every distinguishable cancellation instant of that input"}},
	"C19": {ID: "C19", Level: "fault_enumeration", Variants: []Variant{vVec},
		QuickRuns: 30000, ThoroughRuns: 1500000, QuickSecs: 60, ThoroughSecs: 1200,
		Rule:        "one run = one seeded build or merge scenario with vector fields; a dry run records the engine call sequence; then every (operation, n) of it (quick: a sample) is failed once; non-trivial = the injected failure fired; distinct = distinct digests of the run's event log",
		Assumptions: []string{sampAssume, "stub vector engine with a fault plan; FAISS itself is not exercised"}},
	"C20": {ID: "C20", Level: "exploration", Variants: []Variant{share(vDef, 3), share(vRace, 1), share(vVec, 1)},
		QuickRuns: 18000, ThoroughRuns: 1200000, QuickSecs: 45, ThoroughSecs: 900,
		Rule:        "one run = one mmap-opened (or in-memory) segment and a balanced seeded history of AddRef / DecRef / Close, sequential with a read sweep between any two operations, or 2-5 holder tasks interleaved with the owner's Close and with readers; reference counter model, /proc/self/maps and /proc/self/fd inspected after the last release; non-trivial = at least 3 reference operations with reads in between; distinct = distinct digests of the run's event log",
		Assumptions: []string{sampAssume, "race variant: Go race detector under an invisible (raw-syscall) baton"}},
}

// reach probes that a healthy batch is expected to hit at least once
var expectedProbes = map[string][]string{
	"C03": {"probe.dv.chunk-reload-backwards", "probe.dv.chunk-reload-forwards", "probe.dv.state-across-segments", "probe.dv.state-from-closed-segment"},
	"C04": {"probe.roundtrip.rechecked-after-later-builds", "probe.persist.over-earlier-shorter-attempt", "probe.persist.over-longer-file", "probe.dv.composite-only"},
	"C05": {"probe.stored.bytecopy", "probe.stored.reencode", "probe.merge.nosurvivors", "probe.merge.chain>=2", "probe.merge.emptyinput", "fault.merge.cancelled"},
	"C06": {"probe.dense.batch>=1024", "probe.postings.bytecopy", "probe.postings.reencode", "probe.1hit.remerged", "probe.merge.chain>=2"},
	"C07": {"probe.dense.batch>=1024", "probe.post.target-beyond-32-bits", "probe.post.1hit-list", "probe.post.replaceactual", "probe.post.list>=3hits", "probe.post.list>=3chunks", "probe.prealloc.from-closed-segment"},
	"C08": {"probe.dict.checked-against-batch", "probe.dict.exhausted-iterator-asked-again", "probe.dict.merged>=2terms", "probe.dict.multi-after-single", "probe.dict.two-iterators-of-one-dictionary"},
	"C10": {"probe.build.size-compared-with-slack", "probe.pool.builder-reused", "probe.pool.object-reused-across-tasks", "fault.build.rejected", "probe.build.size-compared", "probe.yield.zapx:new.afterGet", "probe.yield.zapx:new.beforePut"},
	"C11": {"probe.readers.parallel-burst-rounds", "probe.pool.object-reused-across-tasks", "probe.yield.zapx:dict.beforeLock", "probe.yield.zapx:syncache.window", "probe.yield.visit.insideCallback", "probe.yield.merge.reportBytesWritten", "fault.poolflush"},
	"C13": {"probe.merge.chain>=2", "probe.syn.empty-term", "probe.syn.empty-thesaurus"},
	"C15": {"probe.merge.chain>=2", "probe.vec.boundary-batch"},
	"C16": {"fault.engine.load-failed-in-open", "probe.vc.entry-shared-across-except-bitmaps", "probe.vc.eviction-then-reload", "fault.expiry.evictions", "probe.yield.zapx:veccache.window.create", "probe.yield.zapx:veccache.window.docvec"},
	"C17": {"fault.rlimit", "fault.rlimit-transient", "fault.devfull", "fault.devnull", "fault.dir", "fault.noparent", "fault.writer.mode0", "fault.writer.mode1", "fault.strace.fsync", "fault.strace.close", "fault.strace.write", "probe.io.over-longer-file", "probe.io.over-shorter-file"},
	"C18": {"probe.io.over-longer-file", "probe.cancel.midway-aborted", "fault.cancel.aborted", "fault.cancel.finished-normally", "fault.cancel.concurrent-aborted", "fault.cancel.concurrent-finished"},
	"C19": {"probe.vec.field>4096vectors", "probe.io.over-longer-file", "fault.engine.IndexFactory", "fault.engine.AddWithIDs", "fault.engine.WriteIndexIntoBuffer", "fault.engine.ReadIndexFromBuffer", "fault.engine.ReconstructBatch", "fault.engine.Train", "fault.engine.SetDirectMap"},
	"C20": {"probe.ref.engine-indexes-checked-after-release", "probe.ref.parallel-release-rounds", "probe.ref.merge-of-held-segment", "probe.syn.unloadable-thesaurus-world", "probe.ref.failed-merge-of-held-segment", "probe.open.damaged-rejected", "probe.yield.zapx:seg.addRef", "probe.yield.zapx:seg.decRef"},
}

// ---------------------------------------------------------------------------
// determinism self-test: N seeds per property x 2 fresh processes x
// GOMAXPROCS env 1/4/16 -> run digests must be identical. Not part of any
// property's pass/fail.

func selftest(args []string) int {
	seeds := 30
	var only []string
	for i := 0; i < len(args); i++ {
		switch args[i] {
		case "--seeds":
			i++
			seeds, _ = strconv.Atoi(args[i])
		case "--props":
			i++
			only = strings.Split(args[i], ",")
		}
	}
	ids := []string{}
	for id := range props {
		if len(only) == 0 || contains(only, id) {
			ids = append(ids, id)
		}
	}
	bad := 0
	for _, id := range ids {
		cfg := props[id]
		for _, v := range cfg.Variants {
			if v.Race {
				continue
			}
			if err := buildWorker(v); err != nil {
				fmt.Fprintln(os.Stderr, err)
				return 2
			}
			var wg sync.WaitGroup
			outs := make([]string, 6)
			k := 0
			for _, procs := range []string{"1", "4", "16"} {
				for rep := 0; rep < 2; rep++ {
					wg.Add(1)
					go func(k int, procs string) {
						defer wg.Done()
						cmd := exec.Command(workerPath(v), "-prop", id, "-seed", "777", "-from", "0", "-to", strconv.Itoa(seeds))
						cmd.Env = append(os.Environ(), "GOMAXPROCS="+procs)
						var out bytes.Buffer
						cmd.Stdout = &out
						cmd.Run()
						// keep run, ok, digest, choices only
						var sb strings.Builder
						for _, line := range strings.Split(out.String(), "\n") {
							if !strings.Contains(line, "\"digest\"") {
								continue
							}
							i := strings.Index(line, "\"digest\"")
							j := strings.Index(line[i:], ",")
							sb.WriteString(line[:20] + " " + line[i:i+j] + "\n")
						}
						outs[k] = sb.String()
					}(k, procs)
					k++
				}
			}
			wg.Wait()
			same := true
			for i := 1; i < len(outs); i++ {
				if outs[i] != outs[0] {
					same = false
				}
			}
			n := strings.Count(outs[0], "\n")
			if same && n == seeds {
				fmt.Printf("selftest %s/%s: %d seeds x 6 processes identical\n", id, v.Name, seeds)
			} else {
				fmt.Printf("selftest %s/%s: NONDETERMINISTIC (%d lines)\n", id, v.Name, n)
				a := strings.Split(outs[0], "\n")
				for i := 1; i < len(outs); i++ {
					b := strings.Split(outs[i], "\n")
					for j := range a {
						if j >= len(b) || a[j] != b[j] {
							fmt.Printf("  first difference (process %d): %q vs %q\n", i, a[j], safeIdx(b, j))
							break
						}
					}
				}
				bad++
			}
		}
	}
	if bad > 0 {
		return 1
	}
	return 0
}

func safeIdx(a []string, i int) string {
	if i < len(a) {
		return a[i]
	}
	return "<missing>"
}

func contains(a []string, s string) bool {
	for _, x := range a {
		if x == s {
			return true
		}
	}
	return false
}
