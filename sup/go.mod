module verif/sup

go 1.21
