// Package faiss is a pure-Go STUB of github.com/blevesearch/go-faiss v1.0.25,
// used only by the /verif simulation harness (harness go.mod `replace`s the
// real module with this directory). It implements, exactly and by brute force,
// the subset of the API that zapx calls, and adds what a simulator needs:
//
//   - a registry of live indexes with create / close / double-close /
//     use-after-close accounting,
//   - a per-operation call counter and a Hook through which the harness can
//     fail the n-th call of an operation or observe it (cancellation point).
//
// It is NOT a model of FAISS recall: every index answers exactly.
package faiss

import (
	"encoding/binary"
	"encoding/json"
	"errors"
	"fmt"
	"math"
	"sort"
	"strconv"
	"strings"
	"sync"
	"sync/atomic"
)

// Metric type (values as in faiss/MetricType.h)
const (
	MetricInnerProduct = 0
	MetricL2           = 1
)

const (
	IOFlagMmap         = 1
	IOFlagReadOnly     = 2
	IOFlagReadMmap     = 0x646f0000 | 4
	IOFlagSkipPrefetch = 16
)

// ---------------------------------------------------------------------------
// simulator side

// Hook, when non-nil, is called at the start of every engine operation with
// the operation name and its 1-based ordinal among calls of that operation
// since the last ResetCounters. A non-nil return makes the operation fail
// with that error (before it has any effect).
var Hook func(op string, n int) error

var (
	mu        sync.Mutex
	opCounts  = map[string]int{}
	opOrder   []string // sequence of operations since ResetCounters (bounded)
	nextIdxID int64

	created        int64
	closed         int64
	doubleClosed   int64
	usedAfterClose int64
	selLive        int64
)

const maxOpOrder = 1 << 16

// Stats is a snapshot of the engine-side accounting.
type Stats struct {
	Created, Closed, DoubleClosed, UsedAfterClose, Live, SelectorsLive int64
}

func Snapshot() Stats {
	c, cl := atomic.LoadInt64(&created), atomic.LoadInt64(&closed)
	return Stats{
		Created: c, Closed: cl,
		DoubleClosed:   atomic.LoadInt64(&doubleClosed),
		UsedAfterClose: atomic.LoadInt64(&usedAfterClose),
		Live:           c - cl,
		SelectorsLive:  atomic.LoadInt64(&selLive),
	}
}

// ResetCounters clears the per-operation call counters and the recorded
// operation sequence (not the live-index accounting).
func ResetCounters() {
	mu.Lock()
	opCounts = map[string]int{}
	opOrder = opOrder[:0]
	mu.Unlock()
}

// OpCounts returns a copy of the per-operation call counters.
func OpCounts() map[string]int {
	mu.Lock()
	defer mu.Unlock()
	rv := make(map[string]int, len(opCounts))
	for k, v := range opCounts {
		rv[k] = v
	}
	return rv
}

// OpSequence returns the operations called since ResetCounters, in order.
func OpSequence() []string {
	mu.Lock()
	defer mu.Unlock()
	return append([]string(nil), opOrder...)
}

// Quiet switches off every piece of shared engine-side bookkeeping (call
// counters, live-index accounting). It is set once, before any task starts, by
// race-detector runs: shared counters would add happens-before edges between
// tasks and hide races of the code under test. In this mode a closed index
// keeps a plain (non-atomic) flag, so that a use racing with a close is
// itself reported by the race detector.
var Quiet bool

func enter(op string) error {
	if Quiet {
		if h := Hook; h != nil {
			return h(op, 0)
		}
		return nil
	}
	mu.Lock()
	opCounts[op]++
	n := opCounts[op]
	if len(opOrder) < maxOpOrder {
		opOrder = append(opOrder, op)
	}
	h := Hook
	mu.Unlock()
	if h != nil {
		return h(op, n)
	}
	return nil
}

// ---------------------------------------------------------------------------

type Index interface {
	D() int
	Ntotal() int64
	MetricType() int
	impl() *IndexImpl
}

// IndexImpl is the only index type of the stub.
type IndexImpl struct {
	id          int64
	d           int
	metric      int
	ivf         bool
	nlist       int
	nprobe      int32
	trained     bool
	directMap   bool
	ids         []int64
	vecs        []float32
	closedFlg   int32
	closedPlain bool
}

func (idx *IndexImpl) impl() *IndexImpl { return idx }

// ID returns the stub's serial number of this index (simulator side).
func (idx *IndexImpl) ID() int64 { return idx.id }

func (idx *IndexImpl) use() {
	if Quiet {
		if idx.closedPlain {
			panic("stub faiss: index used after Close")
		}
		return
	}
	if atomic.LoadInt32(&idx.closedFlg) != 0 {
		atomic.AddInt64(&usedAfterClose, 1)
	}
}

func newIndex() *IndexImpl {
	if Quiet {
		return &IndexImpl{}
	}
	atomic.AddInt64(&created, 1)
	return &IndexImpl{id: atomic.AddInt64(&nextIdxID, 1)}
}

func IndexFactory(d int, description string, metric int) (*IndexImpl, error) {
	if err := enter("IndexFactory"); err != nil {
		return nil, err
	}
	if d <= 0 {
		return nil, fmt.Errorf("stub faiss: bad dimension %d", d)
	}
	idx := newIndex()
	idx.d = d
	idx.metric = metric
	switch {
	case strings.HasPrefix(description, "IVF"):
		rest := description[3:]
		comma := strings.IndexByte(rest, ',')
		if comma < 0 {
			comma = len(rest)
		}
		n, err := strconv.Atoi(rest[:comma])
		if err != nil || n <= 0 {
			idx.Close()
			return nil, fmt.Errorf("stub faiss: bad description %q", description)
		}
		idx.ivf = true
		idx.nlist = n
		idx.nprobe = 1
	case description == "IDMap2,Flat" || description == "Flat" || description == "IDMap,Flat":
		idx.trained = true
	default:
		idx.Close()
		return nil, fmt.Errorf("stub faiss: unsupported description %q", description)
	}
	return idx, nil
}

func SetOMPThreads(n uint) {}

func (idx *IndexImpl) D() int          { idx.use(); return idx.d }
func (idx *IndexImpl) MetricType() int { idx.use(); return idx.metric }
func (idx *IndexImpl) Ntotal() int64   { idx.use(); return int64(len(idx.ids)) }
func (idx *IndexImpl) IsTrained() bool { idx.use(); return idx.trained }
func (idx *IndexImpl) IsIVFIndex() bool {
	idx.use()
	return idx.ivf
}
func (idx *IndexImpl) Size() uint64 {
	idx.use()
	return uint64(64 + 8*len(idx.ids) + 4*len(idx.vecs))
}

func (idx *IndexImpl) Close() {
	if Quiet {
		idx.closedPlain = true
		return
	}
	if !atomic.CompareAndSwapInt32(&idx.closedFlg, 0, 1) {
		atomic.AddInt64(&doubleClosed, 1)
		return
	}
	atomic.AddInt64(&closed, 1)
}

func (idx *IndexImpl) Train(x []float32) error {
	idx.use()
	if err := enter("Train"); err != nil {
		return err
	}
	if len(x)%idx.d != 0 {
		return errors.New("stub faiss: train data not a multiple of d")
	}
	idx.trained = true
	return nil
}

func (idx *IndexImpl) SetDirectMap(mapType int) error {
	idx.use()
	if err := enter("SetDirectMap"); err != nil {
		return err
	}
	if !idx.ivf {
		return errors.New("stub faiss: SetDirectMap on non-IVF index")
	}
	idx.directMap = true
	return nil
}

func (idx *IndexImpl) SetNProbe(nprobe int32) { idx.use(); idx.nprobe = nprobe }
func (idx *IndexImpl) GetNProbe() int32       { idx.use(); return idx.nprobe }

func (idx *IndexImpl) AddWithIDs(x []float32, xids []int64) error {
	idx.use()
	if err := enter("AddWithIDs"); err != nil {
		return err
	}
	if !idx.trained {
		return errors.New("stub faiss: index not trained")
	}
	if idx.ivf && !idx.directMap {
		return errors.New("stub faiss: add_with_ids on IVF needs a direct map")
	}
	if len(x) != len(xids)*idx.d {
		return fmt.Errorf("stub faiss: %d floats for %d ids of dim %d", len(x), len(xids), idx.d)
	}
	idx.vecs = append(idx.vecs, x...)
	idx.ids = append(idx.ids, xids...)
	return nil
}

func (idx *IndexImpl) find(id int64) int {
	for i, v := range idx.ids {
		if v == id {
			return i
		}
	}
	return -1
}

func (idx *IndexImpl) ReconstructBatch(keys []int64, recons []float32) ([]float32, error) {
	idx.use()
	if err := enter("ReconstructBatch"); err != nil {
		return recons, err
	}
	if idx.ivf && !idx.directMap {
		return recons, errors.New("stub faiss: direct map not initialized")
	}
	if len(recons) < len(keys)*idx.d {
		return recons, errors.New("stub faiss: recons buffer too small")
	}
	pos := make(map[int64]int, len(idx.ids))
	for i, id := range idx.ids {
		if _, ok := pos[id]; !ok {
			pos[id] = i
		}
	}
	for k, key := range keys {
		i, ok := pos[key]
		if !ok {
			return recons, fmt.Errorf("stub faiss: key %d not found", key)
		}
		copy(recons[k*idx.d:(k+1)*idx.d], idx.vecs[i*idx.d:(i+1)*idx.d])
	}
	return recons, nil
}

func (idx *IndexImpl) dist(q []float32, i int) float32 {
	v := idx.vecs[i*idx.d : (i+1)*idx.d]
	var s float32
	if idx.metric == MetricL2 {
		for j := range q {
			dd := q[j] - v[j]
			s += dd * dd
		}
		return s
	}
	for j := range q {
		s += q[j] * v[j]
	}
	return s
}

type hit struct {
	id    int64
	score float32
}

func (idx *IndexImpl) topk(q []float32, k int64, ok func(pos int) bool) ([]float32, []int64) {
	if k < 0 {
		k = 0
	}
	hits := make([]hit, 0, len(idx.ids))
	for i := range idx.ids {
		if ok != nil && !ok(i) {
			continue
		}
		hits = append(hits, hit{idx.ids[i], idx.dist(q, i)})
	}
	l2 := idx.metric == MetricL2
	sort.SliceStable(hits, func(a, b int) bool {
		if hits[a].score != hits[b].score {
			if l2 {
				return hits[a].score < hits[b].score
			}
			return hits[a].score > hits[b].score
		}
		return hits[a].id < hits[b].id
	})
	ds := make([]float32, k)
	ls := make([]int64, k)
	for i := int64(0); i < k; i++ {
		if int(i) < len(hits) {
			ds[i], ls[i] = hits[i].score, hits[i].id
		} else {
			ls[i] = -1
			if l2 {
				ds[i] = math.MaxFloat32
			} else {
				ds[i] = -math.MaxFloat32
			}
		}
	}
	return ds, ls
}

func idSet(ids []int64) map[int64]struct{} {
	m := make(map[int64]struct{}, len(ids))
	for _, id := range ids {
		m[id] = struct{}{}
	}
	return m
}

func (idx *IndexImpl) SearchWithoutIDs(x []float32, k int64, exclude []int64, params json.RawMessage) (
	[]float32, []int64, error) {
	idx.use()
	if err := enter("SearchWithoutIDs"); err != nil {
		return nil, nil, err
	}
	if len(x) != idx.d {
		return nil, nil, errors.New("stub faiss: query dimension mismatch")
	}
	ex := idSet(exclude)
	ds, ls := idx.topk(x, k, func(p int) bool { _, bad := ex[idx.ids[p]]; return !bad })
	return ds, ls, nil
}

func (idx *IndexImpl) SearchWithIDs(x []float32, k int64, include []int64, params json.RawMessage) (
	[]float32, []int64, error) {
	idx.use()
	if err := enter("SearchWithIDs"); err != nil {
		return nil, nil, err
	}
	if len(x) != idx.d {
		return nil, nil, errors.New("stub faiss: query dimension mismatch")
	}
	in := idSet(include)
	ds, ls := idx.topk(x, k, func(p int) bool { _, good := in[idx.ids[p]]; return good })
	return ds, ls, nil
}

// cluster of the vector stored at position p: a trivial, deterministic
// clustering (position modulo nlist); centroid = first vector of the cluster.
func (idx *IndexImpl) clusterOf(p int) int64 { return int64(p % idx.nlist) }

func (idx *IndexImpl) ObtainClusterVectorCountsFromIVFIndex(vecIDs []int64) (map[int64]int64, error) {
	idx.use()
	if err := enter("ObtainClusterVectorCounts"); err != nil {
		return nil, err
	}
	if !idx.ivf {
		return nil, errors.New("index is not an IVF index")
	}
	rv := map[int64]int64{}
	for _, id := range vecIDs {
		p := idx.find(id)
		if p < 0 {
			return nil, fmt.Errorf("stub faiss: key %d not found", id)
		}
		rv[idx.clusterOf(p)]++
	}
	return rv, nil
}

func (idx *IndexImpl) ObtainClustersWithDistancesFromIVFIndex(x []float32, centroidIDs []int64) (
	[]int64, []float32, error) {
	idx.use()
	if err := enter("ObtainClustersWithDistances"); err != nil {
		return nil, nil, err
	}
	if !idx.ivf {
		return nil, nil, errors.New("index is not an IVF index")
	}
	type cd struct {
		c int64
		d float32
	}
	cds := make([]cd, 0, len(centroidIDs))
	for _, c := range centroidIDs {
		if c < 0 || int(c) >= idx.nlist || int(c) >= len(idx.ids) {
			continue
		}
		v := idx.vecs[int(c)*idx.d : (int(c)+1)*idx.d]
		var s float32
		for j := range x {
			dd := x[j] - v[j]
			s += dd * dd
		}
		cds = append(cds, cd{c, s})
	}
	sort.Slice(cds, func(a, b int) bool {
		if cds[a].d != cds[b].d {
			return cds[a].d < cds[b].d
		}
		return cds[a].c < cds[b].c
	})
	cs := make([]int64, len(cds))
	dsts := make([]float32, len(cds))
	for i, e := range cds {
		cs[i], dsts[i] = e.c, e.d
	}
	return cs, dsts, nil
}

func (idx *IndexImpl) SearchClustersFromIVFIndex(selector Selector, eligibleCentroidIDs []int64,
	minEligibleCentroids int, k int64, x, centroidDis []float32, params json.RawMessage) (
	[]float32, []int64, error) {
	idx.use()
	if err := enter("SearchClusters"); err != nil {
		return nil, nil, err
	}
	if !idx.ivf {
		return nil, nil, errors.New("index is not an IVF index")
	}
	if minEligibleCentroids > len(eligibleCentroidIDs) {
		minEligibleCentroids = len(eligibleCentroidIDs)
	}
	probe := idSet(eligibleCentroidIDs[:minEligibleCentroids])
	sel, _ := selector.(*stubSelector)
	ds, ls := idx.topk(x, k, func(p int) bool {
		if _, in := probe[idx.clusterOf(p)]; !in {
			return false
		}
		if sel != nil && !sel.accept(idx.ids[p]) {
			return false
		}
		return true
	})
	return ds, ls, nil
}

// ---------------------------------------------------------------------------

type Selector interface {
	Delete()
}

type stubSelector struct {
	set     map[int64]struct{}
	negate  bool
	deleted int32
}

func (s *stubSelector) accept(id int64) bool {
	_, in := s.set[id]
	return in != s.negate
}

func (s *stubSelector) Delete() {
	if s == nil {
		return
	}
	if Quiet {
		return
	}
	if atomic.CompareAndSwapInt32(&s.deleted, 0, 1) {
		atomic.AddInt64(&selLive, -1)
	}
}

func NewIDSelectorBatch(indices []int64) (Selector, error) {
	if err := enter("NewIDSelectorBatch"); err != nil {
		return nil, err
	}
	if !Quiet {
		atomic.AddInt64(&selLive, 1)
	}
	return &stubSelector{set: idSet(indices)}, nil
}

func NewIDSelectorNot(exclude []int64) (Selector, error) {
	if err := enter("NewIDSelectorNot"); err != nil {
		return nil, err
	}
	if !Quiet {
		atomic.AddInt64(&selLive, 1)
	}
	return &stubSelector{set: idSet(exclude), negate: true}, nil
}

// ---------------------------------------------------------------------------
// serialisation

var magic = []byte("STUBFAISSv1\x00")

func WriteIndexIntoBuffer(i Index) ([]byte, error) {
	idx := i.impl()
	idx.use()
	if err := enter("WriteIndexIntoBuffer"); err != nil {
		return nil, err
	}
	buf := make([]byte, 0, len(magic)+40+8*len(idx.ids)+4*len(idx.vecs)+4)
	buf = append(buf, magic...)
	put := func(v uint64) { buf = binary.LittleEndian.AppendUint64(buf, v) }
	put(uint64(idx.d))
	put(uint64(idx.metric))
	flags := uint64(0)
	if idx.ivf {
		flags |= 1
	}
	if idx.directMap {
		flags |= 2
	}
	if idx.trained {
		flags |= 4
	}
	put(flags)
	put(uint64(idx.nlist)<<32 | uint64(uint32(idx.nprobe)))
	put(uint64(len(idx.ids)))
	for _, id := range idx.ids {
		put(uint64(id))
	}
	for _, f := range idx.vecs {
		buf = binary.LittleEndian.AppendUint32(buf, math.Float32bits(f))
	}
	var sum uint32
	for _, b := range buf {
		sum = sum*31 + uint32(b)
	}
	buf = binary.LittleEndian.AppendUint32(buf, sum)
	return buf, nil
}

func ReadIndexFromBuffer(buf []byte, ioflags int) (*IndexImpl, error) {
	if err := enter("ReadIndexFromBuffer"); err != nil {
		return nil, err
	}
	bad := func(why string) (*IndexImpl, error) {
		return nil, fmt.Errorf("stub faiss: corrupt index buffer: %s", why)
	}
	if len(buf) < len(magic)+44 || string(buf[:len(magic)]) != string(magic) {
		return bad("magic")
	}
	var sum uint32
	for _, b := range buf[:len(buf)-4] {
		sum = sum*31 + uint32(b)
	}
	if binary.LittleEndian.Uint32(buf[len(buf)-4:]) != sum {
		return bad("checksum")
	}
	p := len(magic)
	get := func() uint64 { v := binary.LittleEndian.Uint64(buf[p:]); p += 8; return v }
	d := int(get())
	metric := int(get())
	flags := get()
	nn := get()
	n := int(get())
	if d <= 0 || n < 0 || len(buf) != len(magic)+40+8*n+4*n*d+4 {
		return bad("length")
	}
	idx := newIndex()
	idx.d, idx.metric = d, metric
	idx.ivf, idx.directMap, idx.trained = flags&1 != 0, flags&2 != 0, flags&4 != 0
	idx.nlist, idx.nprobe = int(nn>>32), int32(uint32(nn))
	idx.ids = make([]int64, n)
	for i := range idx.ids {
		idx.ids[i] = int64(get())
	}
	idx.vecs = make([]float32, n*d)
	for i := range idx.vecs {
		idx.vecs[i] = math.Float32frombits(binary.LittleEndian.Uint32(buf[p:]))
		p += 4
	}
	return idx, nil
}
