# sourced by every verif script: offline Go settings
export GOFLAGS=-mod=mod GOPROXY=off GOSUMDB=off GOTOOLCHAIN=local CGO_ENABLED=1
export GOCACHE=${GOCACHE:-$HOME/.cache/go-build}
