#!/bin/sh
# usage: tools/sweep.sh <tier> <seed>...   runs every claimed check with each seed; prints one line per check
tier=$1; shift
for s in "$@"; do
  for p in C03 C04 C05 C06 C07 C08 C10 C11 C13 C15 C16 C17 C18 C19 C20; do
    out=$(VERIF_SEED=$s ./check $p --tier $tier 2>&1); rc=$?
    echo "seed=$s $p exit=$rc $(echo "$out" | tail -1)"
    if [ $rc -ne 0 ]; then echo "$out" | grep -E "VIOLATION|UNSTABLE|HARNESS|class=" | head -5; fi
  done
done
