#!/bin/sh
# usage: tools/eval_seeded.sh <prop> <variant dir name> [vectors-tags] [base dir]
# confirm the seeded change independently, then run the property's quick check against it
p=$1; v=$2; vec=$3; base=${4:-/tmp/wt2}
d=$base/$p/_seeded/$v
[ -f $d/patch.diff ] || { echo "$p/$v: no patch"; exit 0; }
c=$(/verif/tools/confirm_seeded.sh $d $vec 2>&1 | tail -1)
out=$(/verif/tools/try_seeded.sh $d/patch.diff $p --tier quick 2>&1)
rc=$?
cls=$(echo "$out" | grep -A1 "^VIOLATION" | grep "class=" | head -3 | sed 's/^ *//' | tr '\n' ';')
echo "$p/$v | $c | check exit=$rc | $cls | $(echo "$out" | tail -1)"
