#!/bin/sh
# usage: tools/regress_seeded.sh [ids...]   re-runs the quick check of each seeded change's property against it;
# every line must say exit=1. Honours REPO_DIR / VERIF_HOME (see try_seeded.sh).
home=${VERIF_HOME:-/verif}
cd $home
ids=${@:-$(ls seeded)}
for id in $ids; do
  p=${id%%-*}
  out=$(tools/try_seeded.sh seeded/$id/patch.diff $p --tier quick 2>&1); rc=$?
  cls=$(echo "$out" | grep -A1 "^VIOLATION" | grep "class=" | head -2 | sed 's/^ *//' | tr '\n' ';')
  echo "$id exit=$rc $cls"
done
