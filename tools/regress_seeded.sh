#!/bin/sh
# usage: tools/regress_seeded.sh [ids...]   re-runs the quick check of each seeded change's property against it;
# every line must say exit=1. /repo must be clean and is left clean.
cd /verif
ids=${@:-$(ls seeded)}
for id in $ids; do
  p=${id%%-*}
  out=$(tools/try_seeded.sh seeded/$id/patch.diff $p --tier quick 2>&1); rc=$?
  cls=$(echo "$out" | grep -A1 "^VIOLATION" | grep "class=" | head -2 | sed 's/^ *//' | tr '\n' ';')
  echo "$id exit=$rc $cls"
done
