#!/bin/sh
# usage: tools/benign_check.sh [ids...]
# Applies each behaviour-preserving refactoring of benign/ to the repository, runs every quick check with a
# short budget and undoes it: every check must exit 0 (false-alarm regression). Honours REPO_DIR / VERIF_HOME
# (isolated copy: scratch worktree + copy of /verif) like try_seeded.sh.
repo=${REPO_DIR:-/repo}; home=${VERIF_HOME:-/verif}
cd $home
ids=${@:-$(ls benign)}
for id in $ids; do
  cd $repo && [ -z "$(git status --porcelain)" ] || { echo "$repo not clean"; exit 2; }
  git apply $home/benign/$id/patch.diff || { echo "$id: patch does not apply"; continue; }
  cd $home
  for p in C03 C04 C05 C06 C07 C08 C10 C11 C13 C15 C16 C17 C18 C19 C20; do
    if [ "$repo" != "/repo" ]; then out=$(VERIF_REPO=$repo ./check $p --secs ${SECS:-15} 2>&1); else out=$(./check $p --secs ${SECS:-15} 2>&1); fi
    rc=$?
    [ $rc -eq 0 ] || { echo "$id $p exit=$rc"; echo "$out" | grep -E "VIOLATION|UNSTABLE|HARNESS|class=" | head -4; echo "$out" | grep -A6 "class=" | head -12; }
  done
  echo "$id done"
  git -C $repo checkout -- . && git -C $repo clean -fdq
done
