#!/bin/sh
# usage: tools/benign_check.sh [ids...] [-- props...]
# Applies each behaviour-preserving refactoring of /verif/benign to /repo, runs the quick checks (short
# budget) and undoes it: every check must exit 0 (false-alarm regression). /repo must be clean.
cd /verif
ids=${@:-$(ls benign)}
for id in $ids; do
  cd /repo && [ -z "$(git status --porcelain)" ] || { echo "/repo not clean"; exit 2; }
  git apply /verif/benign/$id/patch.diff || { echo "$id: patch does not apply"; continue; }
  cd /verif
  for p in C03 C04 C05 C06 C07 C08 C10 C11 C13 C15 C16 C17 C18 C19 C20; do
    out=$(./check $p --secs 15 2>&1); rc=$?
    [ $rc -eq 0 ] || { echo "$id $p exit=$rc"; echo "$out" | grep -E "VIOLATION|UNSTABLE|HARNESS|class=" | head -4; }
  done
  echo "$id done"
  git -C /repo checkout -- . && git -C /repo clean -fdq
done
