#!/bin/sh
# usage: tools/record_seeded.sh <wave> <id, e.g. C04-G> [vectors-tags for the demonstration]
# Confirms the stored seeded change seeded/<id> independently (tools/confirm_seeded.sh), runs the
# property's quick check against it (tools/try_seeded.sh) and writes seeded/<id>/meta.json.
wave=$1; id=$2; vec=$3
cd /verif
d=seeded/$id; p=${id%%-*}
[ -f $d/patch.diff ] || { echo "$id: no patch"; exit 2; }
c=$(tools/confirm_seeded.sh /verif/$d $vec 2>&1 | tail -1)
out=$(tools/try_seeded.sh $d/patch.diff $p --tier quick 2>&1); rc=$?
cls=$(echo "$out" | grep -A1 "^VIOLATION" | grep "class=" | head -3 | sed 's/^ *//')
CONF="$c" RC=$rc CLS="$cls" WAVE=$wave ID=$id python3 - <<'EOF'
import json, os, re
id = os.environ['ID']; d = '/verif/seeded/' + id
notes = open(d + '/notes.md').read().splitlines()
title = next((l.lstrip('# ').strip() for l in notes if l.strip()), '')
title = re.sub(r'^C\d\d\s*/\s*[A-Z]\s*[-–:]\s*', '', title)
meta = {
 "id": id, "wave": int(os.environ['WAVE']), "property": id.split('-')[0],
 "change": title,
 "needs_to_manifest": "see notes.md",
 "written_by": "independent sub-agent given only the property text, the list of mechanisms already taken, and a scratch worktree of /repo; nothing from /verif",
 "confirmed": {"how": "tools/confirm_seeded.sh (fresh scratch worktree, private /tmp): demo passes on the clean tree; with patch.diff the existing suite passes and the demo fails",
               "result": os.environ['CONF']},
 "check": {"command": "tools/try_seeded.sh seeded/%s/patch.diff %s --tier quick" % (id, id.split('-')[0]),
           "exit": int(os.environ['RC']),
           "violation_classes": [l for l in os.environ['CLS'].splitlines() if l]},
}
if os.path.exists(d + '/patch.orig-c68b1fa.diff'):
    meta["rebased"] = "patch.diff is the change rebased onto the repaired tree (after the C13 / C17 fix: commits); patch.orig-c68b1fa.diff is what the sub-agent delivered"
json.dump(meta, open(d + '/meta.json', 'w'), indent=1)
EOF
echo "$id | $c | check exit=$rc | $(echo "$cls" | tr '\n' ';')"
