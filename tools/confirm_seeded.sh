#!/bin/sh
# usage: tools/confirm_seeded.sh <seed dir containing patch.diff and demo_test.go> [vectors]
# Confirms a seeded change independently in a scratch worktree of /repo (outside /repo and /verif):
#   1. clean tree: demo passes          2. patched tree: existing suite passes, demo fails
# The repository's own tests write to fixed /tmp/scorch*.zap paths, so everything runs in a private
# mount namespace with its own /tmp. Prints a one-line verdict; exit 0 when confirmed.
d="$1"; vec="$2"
. /verif/env.sh
wt=/var/tmp/confirm.$$
git -C /repo worktree add -q --detach "$wt" HEAD || exit 2
trap 'git -C /repo worktree remove --force "$wt" 2>/dev/null; rm -rf "$wt"' EXIT
cp "$d/demo_test.go" "$wt/zz_seeded_demo_test.go"
if [ -n "$vec" ]; then T="-tags $vec -modfile=/tmp/wtmods/vec.mod"; else T=""; fi
run() { unshare -rm sh -c "mount -t tmpfs tmpfs /tmp 2>/dev/null; mkdir -p /tmp/wtmods /tmp/faiss-stub; cd $wt && $*"; }
# the vectors modfile and stub live under /tmp: copy them aside so the private /tmp can see them
if [ -n "$vec" ]; then
  mkdir -p /var/tmp/wtmods && cp /verif/tools/wtmods/vec.mod /verif/tools/wtmods/vec.sum /var/tmp/wtmods/ && sed -i 's#/tmp/faiss-stub#/verif/stubs/go-faiss#' /var/tmp/wtmods/vec.mod
  T="-tags $vec -modfile=/var/tmp/wtmods/vec.mod"
fi
clean_demo=$(run "go test $RACE -vet=off -count=1 $T -run TestSeeded . 2>&1" | tail -3)
echo "$clean_demo" | grep -q "^ok" || { echo "NOT CONFIRMED: demo does not pass on the clean tree: $clean_demo"; exit 1; }
(cd "$wt" && git apply "$d/patch.diff") || { echo "NOT CONFIRMED: patch does not apply"; exit 1; }
mv "$wt/zz_seeded_demo_test.go" "$wt/zz_seeded_demo.go.off"
suite=$(run "go build ./... && go test -vet=off -count=1 ./... 2>&1" | tail -4)
echo "$suite" | grep -q "^ok.*zapx/v16	" || { echo "NOT CONFIRMED: existing suite fails with the patch: $suite"; exit 1; }
if [ -n "$vec" ]; then
  vs=$(run "go test -vet=off -count=1 $T . 2>&1" | tail -3)
  echo "$vs" | grep -q "^ok" || { echo "NOT CONFIRMED: vectors suite fails with the patch: $vs"; exit 1; }
fi
mv "$wt/zz_seeded_demo.go.off" "$wt/zz_seeded_demo_test.go"
pd=$(run "go test $RACE -vet=off -count=1 $T -run TestSeeded . 2>&1" | tail -5)
if echo "$pd" | grep -q "^ok"; then echo "NOT CONFIRMED: demo passes with the patch"; exit 1; fi
echo "CONFIRMED: suite passes with patch, demo fails with patch, demo passes without"
exit 0
