#!/bin/sh
# usage: tools/try_seeded.sh <patch.diff> <property id> [extra check args...]
# Applies a seeded change to /repo, runs the property's check, and undoes the change.
# Never leaves /repo modified. Exit code = exit code of the check.
patch=$(readlink -f "$1"); prop="$2"; shift 2
cd /repo || exit 2
if [ -n "$(git status --porcelain)" ]; then echo "/repo is not clean" >&2; exit 2; fi
git apply "$patch" || { echo "patch does not apply" >&2; exit 2; }
cd /verif
./check "$prop" "$@"
rc=$?
git -C /repo checkout -- . && git -C /repo clean -fdq
exit $rc
