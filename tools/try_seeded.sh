#!/bin/sh
# usage: tools/try_seeded.sh <patch.diff> <property id> [extra check args...]
# Applies a seeded change to the repository, runs the property's check, and undoes the change.
# Never leaves the repository modified. Exit code = exit code of the check.
# REPO_DIR (default /repo) and VERIF_HOME (default /verif) allow an isolated copy: with REPO_DIR set to
# a scratch worktree the check is built against it (VERIF_REPO).
patch=$(readlink -f "$1"); prop="$2"; shift 2
repo=${REPO_DIR:-/repo}; home=${VERIF_HOME:-/verif}
cd "$repo" || exit 2
if [ -n "$(git status --porcelain)" ]; then echo "$repo is not clean" >&2; exit 2; fi
git apply "$patch" || { echo "patch does not apply" >&2; exit 2; }
cd "$home"
if [ "$repo" != "/repo" ]; then VERIF_REPO="$repo" ./check "$prop" "$@"; else ./check "$prop" "$@"; fi
rc=$?
git -C "$repo" checkout -- . && git -C "$repo" clean -fdq
exit $rc
