#!/usr/bin/env python3
"""Writes /verif/MANIFEST.json from the table below (kept next to the code so the two stay in step)."""
import json, subprocess, sys

CLAIMED = {
 # id: (level, technique, level_text, level_note, design_ref)
 "C04": ("exploration", "deterministic simulation: seeded build/persist/re-open round trips (fault-free configuration of the storage-fault simulation), relative oracle memory vs mmap + documented footer/CRC",
         "Seeded exploration of batches x chunk modes x build tags; every built segment is streamed, persisted, read back, footer/CRC checked and re-opened, and the complete read surface of the re-opened segment is compared with the in-memory one. Sampling, not proof.",
         "Trusted: the harness's canonical extraction and CRC/footer reader (written from zap.md); vectors variant runs the stub engine. Assumed: the in-memory answers themselves (C01/C02/C12/C14 are not applicable to this family).", "6 C04"),
 "C05": ("exploration", "deterministic simulation of a segment store (seeded build/persist/merge histories with aborted merges), relative oracle: inputs remapped through the returned maps",
         "Seeded histories of builds, re-opens and merges (chains, mixed provenance, all deletion-bitmap shapes, both stored-merge paths counted as reach probes); each merge output is checked against its inputs for numbering, Count, stored fields, DocID, DocNumbers, Fields and size. Sampling, not proof.",
         "Trusted: harness extraction and the Merged relation. Assumed: answers of the input segments.", "6 C05"),
 "C06": ("exploration", "deterministic simulation of a segment store, relative oracle: input postings / doc values remapped",
         "As C05 for dictionaries, postings (freq, norm, locations with source-field names) and doc values; byte-copy and re-encode posting paths and re-merged single-hit terms are reach probes. Sampling, not proof.",
         "Trusted: harness extraction and the Merged relation. Assumed: answers of the input segments; analysed length >= 1 for fields with tokens.", "6 C05"),
 "C13": ("exploration", "deterministic simulation of a segment store with synonym documents, relative oracle: input (term, synonym, doc) triples remapped",
         "As C05 for thesauri: every merge output's thesauri equal the surviving definitions of the inputs under the new numbering. Sampling, not proof.",
         "Trusted: harness extraction and the Merged relation. Assumed: thesaurus answers of the input segments (C12 not applicable).", "6 C05"),
 "C15": ("exploration", "deterministic simulation of a segment store in the vectors build over a stub engine, relative oracle: input exhaustive search results remapped",
         "As C05 for vector indexes (vectors build, stub engine): exhaustive search results of every merge output equal the inputs' results for survivors under the new numbering; fields whose vectors are all gone carry no index. Sampling, not proof.",
         "Trusted: the pure-Go stub of go-faiss (exact search, reconstruct, serialise). FAISS itself is not exercised. Inputs of one merge are lineage-disjoint (vector ids are unique per build).", "6 C05"),
}

CLAIMED.update({
 "C03": ("exploration", "deterministic simulation, one-client configuration: seeded histories of doc-value visits on reused visit states over segments of every provenance and doc-value chunk sizes; relative oracle: fresh-state visit, postings transposed",
         "Seeded visit orders (ascending, descending, random, repeated, chunk-crossing) x state reuse (same field list; across segments; from a closed segment) x doc-value chunk size x provenance; each visit equals the fresh-state visit of the same document; doc values of built segments equal their postings transposed. Only the history part of the statement is decided. Sampling, not proof.",
         "Assumed: the fresh-state answer relative to the batch (pure-input part, not applicable to this family). Terms without byte 0xFF; no GeoShape extras. A visit state is only reused with the field list it was created for, as the statement says.", "6 C03"),
 "C07": ("exploration", "deterministic simulation, one-client configuration: seeded Next/Advance/ReplaceActual histories on postings lists and iterators recycled as preallocation across terms, fields and segments; relative oracle: fresh Next-only iteration",
         "Seeded (term, exclusion bitmap) x Next/Advance sequences x 8 flag combinations x preallocation reuse chains (other term / field / missing field / other or closed segment, 1-hit <-> general) x ReplaceActual; Count, every returned hit, ActualBitmap and DocNum1Hit are compared with the fresh full iteration minus the exclusion. Only the history part is decided; not bounded-exhaustive. Sampling, not proof.",
         "Assumed: the fresh Next-only iteration with all details (reference). Advance targets strictly beyond the last returned document; ReplaceActual before the first call.", "6 C07"),
 "C08": ("exploration", "deterministic simulation, one-client configuration: seeded dictionary iterations (automaton x range) over built / re-opened / merged / re-merged segments; relative oracle: match-all iteration filtered by the harness, fresh postings-list counts",
         "Seeded automata (nil, match-all, exact, prefix, vellum regexp, vellum levenshtein 1-2, never) x ranges (bounds absent / equal / between / below / above terms) x provenance; returned terms equal the match-all terms filtered by running the automaton in the harness; each Count equals a fresh PostingsList.Count; Contains and Cardinality agree. Only the history part is decided. Sampling, not proof.",
         "Assumed: the match-all iteration's term list (reference). An empty non-nil end bound is not a well-formed range and is not generated.", "6 C08"),
})

CLAIMED.update({
 "C10": ("exploration", "deterministic simulation: seeded builder tasks over the pooled builder, interleaved at document/field accessor callbacks and pool hooks, with rejected batches, failing engine calls and pool flushes; relative oracle: same batch in a pristine builder; race detector under an invisible baton",
         "Seeded histories (large-then-small, many-fields-then-few, synonym/vector then plain, empty, rejected, engine failure) x 1-4 interleaved builder tasks x pool flushes; every successful build equals the pristine build of its batch on the complete read surface (plus size and bytes-written for plain content); a rejected batch returns an error; pool ownership monitored; the same seeds run in the -race binary (default tags). Sampling, not proof.",
         "Assumed: the pristine build relative to the batch (C01). Bytes are not compared: zapx writes the per-field section table in Go map iteration order. Under -race sync.Pool drops Puts at random, so pool contents there are not replayable.", "6 C10"),
 "C11": ("exploration", "deterministic simulation: seeded reader tasks over shared segments under a baton scheduler (yields in visitor callbacks, write callbacks of a concurrent merge and zapx check-then-act windows); oracles: solo answer on a twin instance, visitor bytes stable across a yield, pool ownership monitor, Go race detector under an invisible (raw-syscall) baton",
         "Seeded interleavings of 2-6 reader tasks (term queries, dictionary iterations, stored-field visits that continue / stop at _id / stop later / nest, DocID, DocNumbers, doc-value visits, thesaurus lookups, merges reading the shared segments) after a solo history prefix that shapes the scratch pools; every call equals its solo result, visitor bytes are unchanged after a yield inside the callback, no scratch object is owned twice, zero race reports. Sampling, not proof.",
         "Trusted: the harness's own tasks are race-free by construction (pre-drawn ops, private logs; validated by a clean -race batch on the repaired tree). Assumed: solo answers. Under -race a race finding replays probabilistically (sync.Pool randomness).", "6 C11"),
 "C20": ("exploration", "deterministic simulation: seeded balanced AddRef/DecRef/Close histories, sequential with read sweeps and by interleaved holder tasks; oracles: reference-counter model vs hook-read counter, reads succeed (faults trapped), /proc/self/maps and /proc/self/fd, release return values; race variant",
         "Seeded sequential histories (read sweep, mapping and descriptor check between any two reference operations) and 2-5 interleaved holder tasks with yields before the reference lock; after the last release the file is unmapped and closed, every release returned nil, the counter equals the model throughout. Sampling, not exhaustive enumeration of sequences.",
         "Trusted: /proc/self/maps and /proc/self/fd as observers. Every task owns a reference before it starts, so the count stays positive until the end as the statement requires.", "6 C20"),
})

CLAIMED.update({
 "C16": ("exploration", "deterministic simulation (vectors build, stub engine): seeded open/search/close-handle/expiry-tick/segment-close histories, single task and interleaved tasks with yields in the cache's check-then-act windows; oracles: fresh twin opened from the same bytes, engine-side index accounting; race variant",
         "Seeded histories over pairs of nested / overlapping / disjoint exclusion bitmaps, eviction and reload through an explicit expiry event, 2-4 interleaved searchers; every search equals the same search on a fresh twin; no native index is used after release or released twice, an index behind an open handle survives every expiry tick, none is alive after the segment is closed. Sampling, not proof.",
         "Trusted: the pure-Go stub of go-faiss and its accounting; expiry through the verif hook (one cleanup pass = one monitor tick), the 1 s ticker is parked. Callers follow the API contract: filtered searches only on handles opened with requiresFiltering, eligible documents disjoint from the exclusion bitmap.", "6 C16"),
 "C17": ("fault_enumeration", "fault injection in the real kernel and the io.Writer: per seeded input, write failures at enumerated byte offsets (RLIMIT_FSIZE torn write, failing writer) plus /dev/full, /dev/null (fsync fails), directory at path, missing parent, and strace-injected EIO on write / fsync / close of the output; oracle: error => no file, success => complete file equal to the fault-free run; fault-free retry",
         "For each seeded segment / merge scenario: every named offset class (0, 1, flush boundaries +-1 with the merge buffer shrunk to 16-256 bytes, footer first/middle/last byte, last byte) plus seeded offsets - every offset for outputs up to 400 bytes in the thorough tier - for WriteTo (2 writer failure modes), Persist and Merge, and the four path faults; error => nothing at the path and no descriptor leaked, success => footer, CRC, full content; then a fault-free retry must succeed.",
         "Faults that a process can provoke without a simulated disk: EFBIG torn writes, ENOSPC, EINVAL on fsync, EISDIR, ENOENT, and - through strace/ptrace, path-filtered - EIO from the first/second write, the fsync and the close of the output (counted as unavailable and not judged if ptrace is refused). Lost writes after a successful fsync are not injected. A writer returning n<len(p) with nil error is outside the io.Writer contract and not injected.", "6 C17"),
 "C18": ("fault_enumeration", "cancellation injection: per seeded merge, the close channel is closed before the call, inside the k-th write callback / engine call for enumerated k, after return, and by a concurrent closer task under the seeded scheduler; oracle: closed error => no file, nil => complete file equal to the uncancelled run",
         "A dry run counts the K write callbacks and engine calls of the merge; then every k (quick: a stratified sample when K is large) is cancelled once; nothing observable happens between two callbacks except isClosed polls, so these instants cover every distinguishable cancellation point of that input. A pre-closed channel must give the closed error and no file.",
         "Which polling site observed the closed channel is not visible from outside; the evidence counts aborted vs finished-normally outcomes per batch instead.", "6 C18"),
 "C19": ("fault_enumeration", "engine fault injection (vectors build, stub engine): per seeded build / merge scenario the n-th engine call is failed for every n of the fault-free call sequence; oracle: error, or else complete vector content; failed merge => no file; live-index count back to baseline; no double close",
         "A dry run records the engine call sequence (IndexFactory, SetDirectMap, Train, AddWithIDs, WriteIndexIntoBuffer, ReadIndexFromBuffer, ReconstructBatch); every call is failed once (quick: up to 10 per scenario); scenarios include >= 1000-vector fields so that the clustered-index calls occur.",
         "Trusted: the stub engine and its fault plan. Failures of FAISS that do not surface as an error return of the Go binding are out of scope.", "6 C19"),
})

PENDING = {k: 'claimed in DESIGN.md; its check is still under construction in this session and is not registered yet' for k in []}

NOT_APPLICABLE = {
 "C01": "pure function of (batch, chunk mode, build tag): no schedule, fault, timer, I/O error or call history in the statement; deciding it needs an independent model of the index, i.e. input generation rather than simulation (DESIGN 2, 6)",
 "C02": "pure function of the batch; its stability under concurrency, pool history, re-open and merge is decided under C11, C04, C05 (DESIGN 2, 6)",
 "C09": "needs an independent decoder and a frozen corpus (differential testing over programs); nothing in it varies with schedule, fault or history, and a symmetric writer/reader change is invisible to every relative oracle by construction (DESIGN 2, 6)",
 "C12": "pure function of the batch; re-open stability is decided under C04, merge under C13, concurrent lookups under C11 (DESIGN 2, 6)",
 "C14": "pure function of (segment content, query, k, eligible, except), and with the stub engine it would test the stub; cache history is C16, re-open C04, merge C15, engine failures C19 (DESIGN 2, 6)",
}

def main():
    hooks_commits = subprocess.run(["git","-C","/repo","log","--format=%H","--grep=^verif hooks"],capture_output=True,text=True).stdout.split()
    checks=[]
    for pid,(level,tech,text,note,ref) in sorted(CLAIMED.items()):
        checks.append({
          "property_id": pid,
          "quick_cmd": f"./check {pid} --tier quick",
          "thorough_cmd": f"./check {pid} --tier thorough",
          "evidence_file": f"/verif/evidence/{pid}.json",
          "replay_cmd_template": "./check replay {path}",
          "engine": "verifsim",
          "level_claimed": {"category": level, "text": text, "design_ref": "DESIGN.md section "+ref},
          "level_note": note,
          "technique": tech,
        })
    na=[{"property_id":k,"reason":v} for k,v in sorted(NOT_APPLICABLE.items())]
    na+=[{"property_id":k,"reason":v} for k,v in sorted(PENDING.items())]
    m={
     "version":1,
     "setup_cmd":". ./env.sh && mkdir -p bin && (cd sup && go build -o ../bin/verifsim .) && (cd sim && go build -tags verif -o ../bin/simworker.def ./worker && go build -tags verif,vectors -o ../bin/simworker.vec ./worker && go build -race -tags verif -o ../bin/simworker.race ./worker && go build -race -tags verif,vectors -o ../bin/simworker.vecrace ./worker)",
     "hooks":{
       "guard":"verif",
       "enable":"go build -tags verif (default build) or -tags verif,vectors (vectors build, with github.com/blevesearch/go-faiss replaced by /verif/stubs/go-faiss); every check rebuilds its workers from /repo's working tree",
       "baseline_off_cmd":"cd /repo && GOFLAGS=-mod=mod GOPROXY=off go test -vet=off -count=1 ./...",
       "source_commits":hooks_commits,
       "add_only":True,
     },
     "engines":[{"name":"verifsim","path":"/verif/sup (supervisor), /verif/sim/worker (simulation worker), /verif/stubs/go-faiss (stub engine)",
                 "serves_properties":sorted(CLAIMED.keys()),
                 "kind_free_text":"deterministic simulation with fault injection: seeded baton scheduler over real goroutines, seeded segment-store / reader / builder workloads, faults in the real kernel, the io.Writer, the close channel and a stub vector engine; choice-trace recording, delta-debugging minimisation and exact replay in fresh processes"}],
     "checks":checks,
     "not_applicable":na,
     "notes":"VERIF_SEED selects the base seed (default 20260927); run i of property P uses splitmix64(VERIF_SEED,P,i). Known and fixed findings: /verif/known_findings.json. Exit 2 = build/harness trouble, never a violation.",
    }
    json.dump(m,open("/verif/MANIFEST.json","w"),indent=1)
    print("wrote MANIFEST.json with",len(checks),"checks,",len(na),"not applicable")
main()
