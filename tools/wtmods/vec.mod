module github.com/blevesearch/zapx/v16

go 1.21

require (
	github.com/RoaringBitmap/roaring/v2 v2.4.5
	github.com/bits-and-blooms/bitset v1.22.0
	github.com/blevesearch/bleve_index_api v1.2.8
	github.com/blevesearch/go-faiss v1.0.25
	github.com/blevesearch/mmap-go v1.0.4
	github.com/blevesearch/scorch_segment_api/v2 v2.3.10
	github.com/blevesearch/vellum v1.1.0
	github.com/golang/snappy v0.0.4
	github.com/spf13/cobra v1.7.0
)

require (
	github.com/inconshreveable/mousetrap v1.1.0 // indirect
	github.com/mschoch/smat v0.2.0 // indirect
	github.com/spf13/pflag v1.0.5 // indirect
	golang.org/x/sys v0.13.0 // indirect
)

replace github.com/blevesearch/go-faiss => /tmp/faiss-stub
